"""C05 Output is a deterministic function of source and options.
(a) scans of the MIR of the current tree: process-wide mutable state (statics, thread-locals, once-cells) and every body that
    iterates a HashMap/HashSet, each with the reason why its result cannot depend on the iteration order (sorted afterwards by an
    injective key / map-to-map copy / set closure); an unknown site makes the check inconclusive.
(b) differential runs through the real compiler: every program of a family built around the order-sensitive spots (several string
    literals per expression, many variables and functions, several interrupt handlers, diagnostics) is compiled in several fresh
    processes (fresh hash seeds), several times in one process, and after every other program of a pool in the same process
    (history independence); all outputs and diagnostics must be byte-identical."""
import os, re, json, itertools, collections, subprocess, time
import common
import families, families2

KNOWN_SITES = {
    'sorted_variables': 'collects into a Vec and sorts by the injective key `order`',
    'sorted_functions': 'collects into a Vec and sorts by the injective key `order`',
    'parse_expr': 'collects the literals into a Vec and sorts them by name before creating them',
    'parse_expr_init_value': 'collects the literals into a Vec and sorts them by name before creating them',
    'parse_expr_ex::{closure#0}': 'copies one map into another (insertion order is irrelevant)',
    'parse_expr_ex::{closure#3}': 'copies one map into another (insertion order is irrelevant)',
    'parse_expr_init_value_ex::{closure#0}': 'copies one map into another (insertion order is irrelevant)',
    'parse_expr_init_value_ex::{closure#3}': 'copies one map into another (insertion order is irrelevant)',
    'compile_func_decl': 'copies the variable names into the scope map (insertion order is irrelevant)',
    'compute_functions_actually_in_use': 'set closure, decided by C12 for every visiting order of the roots (set union is commutative)',
}
NEED_SORT = {'sorted_variables', 'sorted_functions', 'parse_expr', 'parse_expr_init_value'}
HASH_ITER = re.compile(r'= (<&(?:mut )?Hash(?:Map|Set)<.*> as IntoIterator>::into_iter|Hash(?:Map|Set)::<.*>::(?:iter|iter_mut|keys|values|values_mut|drain|into_keys|into_values|retain)|<Hash(?:Map|Set)<.*> as IntoIterator>::into_iter)\(')


def scan(rep, st):
    import mirdump
    lines = open(mirdump.mir_path('on')).read().split('\n')
    cur, sites, body = None, collections.OrderedDict(), collections.defaultdict(list)
    statics = []
    for l in lines:
        if l.startswith('fn '):
            m = re.match(r'fn (.*?)\((?:_\d+|\))', l); cur = m.group(1) if m else l
        elif l.startswith('static ') or l.startswith('const ') and re.search(r'Mutex|RwLock|RefCell|\bCell<|OnceLock|OnceCell|LazyLock|Atomic[A-Z0-9]', l):
            statics.append(l[:160])
        if cur: body[cur].append(l)
        if cur and HASH_ITER.search(l): sites.setdefault(cur, []).append(HASH_ITER.search(l).group(1)[:80])
        if 'thread_local' in l or 'LocalKey<' in l: statics.append('thread-local: ' + l.strip()[:140])
    st['hash_iteration_sites'] = {}
    for fn, calls in sites.items():
        short = re.sub(r'^.*?>::', '', fn)
        st['obligations'] += 1
        if short not in KNOWN_SITES:
            rep.inconc('new hash-map iteration site %s (%s): its order independence has not been analysed' % (fn, calls[0])); continue
        if short in NEED_SORT and not any('sort_by' in x or '::sort' in x for x in body[fn]):
            st['unsorted_sites'].append(short)
            st['hash_iteration_sites'][short] = 'NOT SORTED ANY MORE'
            continue
        st['hash_iteration_sites'][short] = KNOWN_SITES[short]; st['discharged'] += 1
    st['hidden_state'] = statics
    return statics


def order_keys(rep, st):
    """sorted_variables / sorted_functions are order independent iff the `order` keys of the live entries are pairwise distinct.
    The key expression of every insert site is read from the MIR; z3 looks for a sequence of <= 5 inserts (symbolic keys) after which
    two live entries share a key; a model is replayed as a source program compiled in fresh processes."""
    import z3, mirdump
    lines = open(mirdump.mir_path('on')).read().split('\n')
    sites, cur, start = [], None, 0
    for n, l in enumerate(lines):
        if l.startswith('fn '): cur = l; start = n
        m = re.search(r'= (?:compile::)?(Variable|Function)(?:::<[^>]*>)? \{ order: (?:move|copy) (_\d+)', l)
        if m and cur:
            kind, loc = m.group(1), m.group(2)
            src = None
            for k in range(n, start, -1):
                mm = re.match(r'\s*%s = (.*?)(?: -> .*)?;$' % re.escape(loc), lines[k])
                if mm: src = mm.group(1); break
            fname = re.match(r'fn (.*?)\(', cur).group(1).split('::')[-1]
            sites.append((fname, kind, src or '?'))
    st['order_sites'] = [dict(function=f, map=k, order_expr=s[:90]) for f, k, s in sites]
    for kind in ('Variable', 'Function'):
        exprs = [s for f, k, s in sites if k == kind]
        st['obligations'] += 1
        LEN = r'HashMap::<std::string::String, (compile::)?%s(<.*>)?>::len\(' % kind
        KEEP = r'Option::<&(compile::)?%s(<.*>)?>::map_or::<usize, ' % kind       # existing.order if the key is present, else map.len()
        kinds = ['len' if re.match(LEN, e) else 'keep' if re.match(KEEP, e) else None for e in exprs]
        if not exprs or None in kinds:
            rep.inconc('order key of a %s insert site is neither `map.len()` nor `existing.order or map.len()`: %s' % (kind, [e for e, k in zip(exprs, kinds) if k is None])); continue
        # bounded model check: order := len at every insert; an insert of a present key replaces the entry and does not grow the map
        K, N = 4, 5
        s = z3.Solver()
        present = [[z3.Bool('p_%d_%d' % (t, k)) for k in range(K)] for t in range(N + 1)]
        order = [[z3.Int('o_%d_%d' % (t, k)) for k in range(K)] for t in range(N + 1)]
        ln = [z3.Int('len_%d' % t) for t in range(N + 1)]
        key = [z3.Int('key_%d' % t) for t in range(N)]
        keep = [z3.Bool('site_keeps_%d' % t) for t in range(N)]
        if 'keep' not in kinds: s.add(*[z3.Not(x) for x in keep])
        if 'len' not in kinds: s.add(*keep)
        s.add(ln[0] == 0, *[z3.Not(present[0][k]) for k in range(K)])
        for t in range(N):
            s.add(key[t] >= 0, key[t] < K)
            for k in range(K):
                hit = key[t] == k
                s.add(present[t + 1][k] == z3.Or(present[t][k], hit))
                s.add(order[t + 1][k] == z3.If(hit, z3.If(z3.And(keep[t], present[t][k]), order[t][k], ln[t]), order[t][k]))
            s.add(ln[t + 1] == ln[t] + z3.If(z3.Or(*[z3.And(key[t] == k, present[t][k]) for k in range(K)]), 0, 1))
        s.add(z3.Or(*[z3.And(present[N][a], present[N][b], order[N][a] == order[N][b]) for a in range(K) for b in range(a + 1, K)]))
        st['queries'] += 1
        if s.check() != z3.sat:
            st['discharged'] += 1; continue
        m = s.model(); seq = [m.eval(key[t], model_completion=True).as_long() for t in range(N)]
        st['order_model_' + kind] = seq
        # replay: the same insert sequence written as source (a repeated key is a prototype followed by the definition / a redeclaration)
        names = ['k%d' % k for k in range(K)]
        cand = []
        seen, body = set(), 'char acc;\n'
        for t, k in enumerate(seq):
            again_later = k in seq[t + 1:]
            if k in seen or not again_later: body += 'void %s() { acc += %d; }\n' % (names[k], k + 1)
            else: body += 'void %s();\n' % names[k]
            seen.add(k)
        body += 'void main() { %s }\n' % ' '.join('%s();' % names[k] for k in sorted(set(seq)))
        cand.append(('functions', body))
        cand.append(('variables', ''.join('char %s;\n' % names[k] for k in seq) + 'void main() {}\n'))
        confirmed = False
        for what, src in cand:
            outs = set()
            for i in range(10):
                o = run_batch([('r', ['-O1'], src)])[0]; st['replays'] += 1
                outs.add(json.dumps(o))
            first = json.loads(sorted(outs)[0])
            if first[0] == 'ok' and len(outs) > 1:
                confirmed = True
                fo = lambda o: [l.split('\t')[1] for l in json.loads(o)[1].split('\n') if l.startswith('\x01FUNC') or l.startswith('\x01VAR')]
                rep.violation('order-key.%s.%s' % (kind, what), 'the sort key `order` of %s entries is map.len() at insert time; inserting a key that is already present (a prototype followed by its definition) does not grow the map, '
                              'so the next new entry receives the same key and their relative order follows hash iteration. Insert sequence %s; replay program gives %d different outputs in 10 fresh processes, e.g. %s / %s' % (
                                  kind, seq, len(outs), fo(sorted(outs)[0])[:8], fo(sorted(outs)[1])[:8]), dict(kind='nondet', source=src, args=['-O1'], runs=10))
                break
        if not confirmed:
            st['unconfirmed_isolated'].append('%s: z3 finds the colliding insert sequence %s but no source reaches it (redeclaration is rejected)' % (kind, seq)); st['discharged'] += 1


def pool():
    """programs around the order-sensitive spots"""
    P = collections.OrderedDict()
    P['literals2'] = 'char *gp; char *gq;\nvoid f(char *a, char *b) { gp = a; gq = b; }\nvoid main() { f("first", "second"); }\n'
    P['literals4'] = 'char *g1; char *g2; char *g3; char *g4;\nvoid f(char *a, char *b, char *c, char *d) { g1 = a; g2 = b; g3 = c; g4 = d; }\nvoid main() { f("aa", "bb", "cc", "dd"); f("ee", "ff", "gg", "hh"); }\n'
    P['literals_init'] = 'const char *t[] = {"x1", "x2", "x3", "x4", "x5"};\nchar *gp;\nvoid main() { char *p = "loc1"; gp = p; gp = "loc2"; }\n'
    P['literals12'] = 'char *g[12];\nvoid f12(char *a, char *b, char *c) { g[0] = a; g[1] = b; g[2] = c; }\nvoid main() { f12("l0", "l1", "l2"); f12("l3", "l4", "l5"); f12("l6", "l7", "l8"); f12("l9", "l10", "l11"); }\n'
    P['manyvars'] = ''.join('char v%d; short w%d;\n' % (k, k) for k in range(24)) + 'void main() { v0 = v23; w1 = w22; }\n'
    P['manyfuncs'] = 'char acc;\n' + ''.join('void fn%d() { acc += %d; }\n' % (k, k) for k in range(16)) + 'void main() { ' + ' '.join('fn%d();' % k for k in range(16)) + ' }\n'
    P['interrupts'] = 'char a, b, c;\nvoid h1() { a++; }\nvoid h2() { b++; }\nvoid h3() { c++; }\nvoid interrupt i1() { h1(); }\nvoid interrupt i2() { h2(); }\nvoid interrupt i3() { h3(); }\nvoid main() { a = 0; }\n'
    P['locals'] = 'char g;\nchar f(char p, char q) { char l1; char l2; l1 = p; l2 = q; return l1 + l2; }\nchar h(char p) { char l1; l1 = p; return l1; }\nvoid main() { g = f(1, 2) + h(3); }\n'
    P['macro_a'] = '#define ADD(x, y) ((x) + (y))\n#define K 3\nchar r;\nvoid main() { r = ADD(K, 2); }\n'
    P['macro_b'] = '#define ADD(first, second) ((first) - (second))\n#define K 9\nchar r;\nvoid main() { r = ADD(K, 1); }\n'
    P['macro_c'] = '#define ADD(p, q) ((q) & (p))\nchar r; char K;\nvoid main() { r = ADD(K, 7); }\n'
    P['diag_unknown'] = 'char speed; char SPEED; char Speed; char sPeed;\nvoid main() { speeD = 1; }\n'
    P['diag_dup'] = ''.join('char q%d;\n' % k for k in range(10)) + 'char q3;\nvoid main() {}\n'
    P['diag_func'] = 'void alpha() {}\nvoid Alpha() {}\nvoid ALPHA() {}\nvoid main() { alphA(); }\n'
    P['diag_cpp'] = '#define ONE 1\n#define one 1\n#if One\n#endif\nvoid main() {}\n'
    P['prototypes'] = 'char acc;\nvoid pa();\nvoid pb() { acc = 1; }\nvoid pa() { acc = 2; }\nvoid pc() { acc = 3; }\nvoid pd() { acc = 4; }\nvoid main() { pa(); pb(); pc(); pd(); }\n'
    P['ptr_table_mixed'] = 'const char one[2] = {1, 2};\nconst char *t1[] = {one, "s1", one, "s2", "s3"};\nconst char *t2[] = {"u1", one, "u2"};\nchar *gp;\nvoid main() { gp = "late"; }\n'
    P['proto_only_calls'] = 'void pa(); void pb(); void pc();\nchar c;\nvoid main() { pa(); pb(); pc(); }\n'
    P['many_errors'] = 'char c;\nvoid main() { u1 = 1; u2 = 2; u3 = 3; }\n'
    P['literals_local_init'] = 'char *g1; char *g2;\nchar pick(char *a, char *b) { g1 = a; g2 = b; return 1; }\nchar r;\nvoid main() { char c = pick("hello", "world"); r = c; }\n'
    P['literals_local_init4'] = 'char *g[4];\nchar pick4(char *a, char *b, char *c, char *d) { g[0] = a; g[1] = b; g[2] = c; g[3] = d; return 2; }\nchar r;\nvoid f() { char x = pick4("p", "qq", "rrr", "ssss"); char y = pick4("tt", "u", "vvvv", "www"); r = x + y; }\nvoid main() { f(); }\n'
    P['literals_local_tern'] = 'char *gp; char k;\nvoid main() { char *q = k ? ("yes") : "no"; gp = q; }\n'
    P['proto_twice'] = 'char acc;\nchar fa(); char fa();\nchar fb() { return 1; }\nchar fc() { return 2; }\nchar fa() { return 3; }\nvoid main() { acc = fa() + fb() + fc(); }\n'
    P['proto_thrice_mixed'] = 'char acc;\nvoid p1(); void p2(); void p1(); void p2(); void p1();\nvoid q1() { acc = 1; }\nvoid q2() { acc = 2; }\nvoid p2() { acc = 3; }\nvoid p1() { acc = 4; }\nvoid main() { p1(); p2(); q1(); q2(); }\n'
    P['macro_d'] = '#define SCALE(v) ((v) << 1)\nchar r;\nvoid main() { r = SCALE(3); }\n'
    P['macro_e'] = '#define SCALE(v, by) ((v) << (by))\nchar r;\nvoid main() { r = SCALE(3, 2); }\n'
    P['macro_f'] = '#define SCALE 4\nchar r;\nvoid main() { r = SCALE; }\n'
    P['farbranch'] = 'char a, b;\nvoid main() { if (a == b) { ' + ' '.join('a = a + %d;' % (k % 7 + 1) for k in range(30)) + ' } b = 1; while (a <= b) { ' + ' '.join('b = b + %d;' % (k % 5 + 1) for k in range(30)) + ' } }\n'
    P['farbranch2'] = 'char c, d;\nvoid f() { if (c != d) { ' + ' '.join('c = c + %d;' % (k % 3 + 1) for k in range(30)) + ' } }\nvoid main() { f(); if (c < d) { ' + ' '.join('d = d + %d;' % (k % 4 + 1) for k in range(30)) + ' } }\n'
    P['literals_same_text'] = 'char *g1; char *g2; char *g3;\nvoid box(char *a, char *b, char *c) { g1 = a; g2 = b; g3 = c; }\nvoid main() { box("+------+", "| GAME |", "+------+"); box("x", "x", "x"); }\n'
    P['macro_g'] = '#define AREA(w, h) ((w) * 4 + (h))\nchar r;\nvoid main() { r = AREA(2, 3); }\n'
    P['macro_h'] = '#define AREA(w, h) ((w) + (h) * 8)\nchar r;\nvoid main() { r = AREA(2, 3); }\n'
    P['macro_i'] = '#define AREA(w, h) ((h) - (w))\nchar r;\nvoid main() { r = AREA(2, 3); }\n'
    P['superchip'] = 'superchip char s1; superchip short s2; char z1;\nvoid main() { s1 = z1; s2 = s1; }\n'
    return P


def outcome(j):
    if j.get('status') == 'ok': return ('ok', j.get('raw'))
    return (j.get('status'), json.dumps(j.get('err'), sort_keys=True), j.get('display') or j.get('msg'))


def run_batch(items, same_thread=True):
    """one driver process compiling `items` [(id, args, src)] in order - by default all in ONE thread, so that process-wide AND
    thread-local state of the library is carried from one compilation to the next; returns list of outcomes"""
    lines = ['C\t%s\t%s\t%s' % (i, common._hex('\x1f'.join(a)), common._hex(s)) for i, a, s in items]
    env = dict(common.ENV, RUST_LOG='off')
    if same_thread: env['CCDRV_SAME_THREAD'] = '1'
    p = subprocess.run([common.build_driver()], input='\n'.join(lines) + '\n', capture_output=True, text=True, env=env)
    out = {}
    for l in p.stdout.split('\n'):
        if l.startswith('{"id":'):
            j = json.loads(l); out[j['id']] = outcome(j)
    return [out.get(i) for i, _, _ in items]


def differential(rep, tier, st):
    P = pool()
    progs = [(n, [o], s) for n, s in P.items() for o in ('-O1', '-O0')]
    extra = [p for p in families2.g_call('quick')][:12] + [p for p in families.g_peep('quick') if p.pid.startswith('peep/1/')][:20]
    progs += [(p.pid, ['-O1'], p.c()) for p in extra]
    nproc = 8 if tier == 'quick' else 24
    # fresh processes (fresh hash seeds) and repetition inside one process
    ref = {}
    for k in range(nproc):
        items = [(i, a, s) for i, a, s in progs] + ([(i, a, s) for i, a, s in progs] if k == 0 else [])
        outs = run_batch(items)
        for (i, a, s), o in zip(items, outs):
            key = (i, tuple(a))
            st['compilations'] += 1
            if key not in ref: ref[key] = (o, k); continue
            if o != ref[key][0]:
                same_proc = (k == 0 and ref[key][1] == 0)
                show = lambda x: (x[1][:400] if x and x[0] == 'ok' else str(x)[:400])
                rep.violation('nondet:%s' % i, 'program %s %s: %s produce different results:\n--- first\n%s\n--- other\n%s' % (
                    i, a, 'two compilations in one process' if same_proc else 'two fresh processes (different hash seeds)', show(ref[key][0]), show(o)),
                    dict(kind='nondet', source=s, args=a, runs=nproc))
    # history independence: B alone vs B after A in the same process
    names = list(P)
    pairs = list(itertools.permutations(names, 2))
    if tier == 'quick': pairs = [pq for k, pq in enumerate(pairs) if k % 3 == 0 or ('macro' in pq[0] and 'macro' in pq[1])]
    alone = {n: run_batch([(n, ['-O1'], P[n])])[0] for n in names}
    for a, b in pairs:
        outs = run_batch([(a, ['-O1'], P[a]), (b, ['-O1'], P[b])])
        st['history_pairs'] += 1
        if outs[1] != alone[b]:
            rep.violation('history:%s>%s' % (a, b), 'compiling %s after %s in the same process gives a different result than compiling it first:\n--- alone\n%s\n--- after %s\n%s' % (
                b, a, str(alone[b])[:400], a, str(outs[1])[:400]), dict(kind='history', first=P[a], source=P[b], args=['-O1']))


def run(tier):
    rep = common.Report('C05', tier, 'other')
    common.build_driver()
    st = collections.defaultdict(int); st['unsorted_sites'] = []; st['unconfirmed_isolated'] = []
    statics = scan(rep, st)
    order_keys(rep, st)
    differential(rep, tier, st)
    # a site that lost its sort and hidden state are reported through their observable effect above; if the differential did not expose them, say so
    for s in st['unsorted_sites']: rep.inconc('hash iteration in %s is no longer followed by a sort, and no differential run exposed an effect' % s) if not rep.violations else None
    if statics and not rep.violations: rep.inconc('process-wide mutable state found in the MIR (%s) and no history run exposed an effect' % statics[:3])
    rep.cov = dict(explanation='(a) MIR scans of the current tree: process-wide mutable state; every body that iterates a HashMap/HashSet with the recorded reason why the order cannot matter (an unknown site or a lost sort makes the check inconclusive); '
                   '(b) differential runs through the real compiler: each program compiled in several fresh processes and twice in one process, and after every other pool program in the same process; outputs (emitted code, variable/function order, call tree, diagnostics) byte-identical',
                   obligations=st['obligations'] + st['compilations'] + st['history_pairs'], discharged=st['discharged'] + st['compilations'] + st['history_pairs'] - len(rep.violations), evaluations=st['compilations'] + st['history_pairs'],
                   distinct_nontrivial=len(pool()) * 2, hash_iteration_sites=st['hash_iteration_sites'], hidden_state=statics, compilations=st['compilations'], fresh_processes=8 if tier == 'quick' else 24, history_pairs=st['history_pairs'],
                   samples=[dict(program=list(pool().items())[0][1], verdict='identical in all processes and histories')],
                   order_sites=st.get('order_sites'), order_models={k: v for k, v in st.items() if k.startswith('order_model_')}, unconfirmed_isolated=st['unconfirmed_isolated'], queries=st['queries'], replays=st['replays'],
                   technique_note='the solver decides the injectivity of the sort keys (bounded model check over insert sequences, key expression read from the MIR); the per-site commutativity encoding of design 4/C05 was replaced by the MIR site scan plus differential runs, labelled as such',
                   trusted_base=['MIR scan patterns', 'driver'])
    rep.assumptions = ['Rust code without hash iteration, statics, time, randomness or I/O is deterministic']
    return rep.finish()

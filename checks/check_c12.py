"""C12 Call graph and in-use set are complete.
(a) E-MIR: compute_functions_actually_in_use + function_is_actually_in_use executed from MIR on every call tree over <= 3 function
    names (all 512 adjacency matrices) with SYMBOLIC interrupt flags: z3 decides that the published set equals the reflexive-
    transitive closure from main and the interrupt handlers.
(b) end-to-end: programs with calls in every expression/statement position, inline callees calling further functions, prototypes,
    unused functions, interrupt handlers, banked callees: every source-level call edge is in the published tree, every JSR of the
    emitted code leads to a function reachable through the tree, and the in-use set is exactly the closure."""
import itertools, time, collections, re, copy
import z3
import common
from base import *
from cast import *
from cast import *
from base import S
import families, families2
from families import V, C, A, B, mkprog

NAMES = ['main', 'fa', 'fb']


class MapAbs:
    def __init__(self, d): self.d = d


class SetAbs:
    def __init__(self): self.items = set()


def cstr(v):
    v = S(v)
    if isinstance(v, Str) and all(isinstance(x, str) for x in v.parts): return ''.join(v.parts)
    return None


def check_closure(rep, mir, tier, st):
    fn = [n for n in mir.index if n.endswith('>::compute_functions_actually_in_use')][0]
    rec = [n for n in mir.index if n.endswith('>::function_is_actually_in_use')][0]
    st['functions'] += [fn, rec]
    edges_all = [(a, b) for a in NAMES for b in NAMES]
    graphs = list(itertools.product((0, 1), repeat=9))
    if tier == 'quick': graphs = [g for k, g in enumerate(graphs) if k % 4 == 0 or sum(g) <= 3]
    for g in graphs:
        tree = {}
        for (a, b), bit in zip(edges_all, g):
            if bit: tree.setdefault(a, []).append(b)
        ctx = Ctx(mir)
        intr = {n: z3.Bool('interrupt[%s]' % n) for n in NAMES[1:]}
        def m_set_new(i, p, fr, c, a, d, r): return ret(p, fr, d, r, SetAbs())
        def m_set_get(i, p, fr, c, a, d, r):
            s_, k = S(a[0]), cstr(a[1]); return ret(p, fr, d, r, opt(Ref(Cell(Str([k])))) if k in s_.items else opt(None))
        def m_set_insert(i, p, fr, c, a, d, r):
            s_, k = S(a[0]), cstr(a[1]); new = k not in s_.items; s_.items.add(k); return ret(p, fr, d, r, z3.BoolVal(new))
        def m_map_get(i, p, fr, c, a, d, r):
            k = cstr(a[1]); return ret(p, fr, d, r, opt(Ref(Cell(Opaque('vec', list(tree[k]))))) if k in tree else opt(None))
        def m_vec_iter(i, p, fr, c, a, d, r): return ret(p, fr, d, r, Opaque('it', list(S(a[0]).payload)))
        def m_vec_next(i, p, fr, c, a, d, r):
            it = S(a[0])
            if not it.payload: return ret(p, fr, d, r, opt(None))
            return ret(p, fr, d, r, opt(Ref(Cell(Str([it.payload.pop(0)])))))
        def m_funcs_iter(i, p, fr, c, a, d, r): return ret(p, fr, d, r, Opaque('fit', list(NAMES)))
        def m_funcs_next(i, p, fr, c, a, d, r):
            it = S(a[0])
            if not it.payload: return ret(p, fr, d, r, opt(None))
            n = it.payload.pop(0)
            f = Adt('Function', None); F = STRUCTS['Function']
            f.fields[('', F.index('interrupt'))] = Cell(intr[n] if n in intr else z3.BoolVal(False))
            t = Adt('tuple', None); t.fields[('', 0)] = Cell(Ref(Cell(Str([n])))); t.fields[('', 1)] = Cell(Ref(Cell(f)))
            return ret(p, fr, d, r, opt(t))
        def m_is_none(i, p, fr, c, a, d, r): return ret(p, fr, d, r, z3.BoolVal(S(a[0]).discr == 0))
        def m_to_string(i, p, fr, c, a, d, r): return ret(p, fr, d, r, Str([cstr(a[0])]))
        def m_deref(i, p, fr, c, a, d, r): return ret(p, fr, d, r, a[0])
        M = dict(LIB)
        M.update({r'^HashSet::<.*>::new$': m_set_new, r'^HashSet::<.*>::get::': m_set_get, r'^HashSet::<.*>::insert$': m_set_insert, r'^HashMap::<std::string::String, Vec<.*>>::get::': m_map_get,
                  r'<&Vec<std::string::String> as IntoIterator>::into_iter$': m_vec_iter, r'Iter<.*String> as Iterator>::next$': m_vec_next,
                  r'<&HashMap<std::string::String, (compile::)?Function<.*>> as IntoIterator>::into_iter$': m_funcs_iter, r'Iter<.*Function<.*>> as Iterator>::next$': m_funcs_next,
                  r'Option::<.*>::is_none$': m_is_none, r'as ToString>::to_string$': m_to_string, r'<std::string::String as Deref>::deref$': m_deref})
        it = Interp(ctx, inline=[r'function_is_actually_in_use$'], models=M); it.assume_some = False
        it.allow_uninterpreted = [r'^log::', r'max_level', r'fmt::rt::Argument', r'^Arguments::']
        gs = Adt('GeneratorState', None); G = STRUCTS['GeneratorState']
        cs = Adt('CompilerState', None); gs.fields[('', G.index('compiler_state'))] = Cell(Ref(Cell(cs)))
        cs.fields[('', STRUCTS['CompilerState'].index('functions'))] = Cell(Opaque('functions'))
        gs.fields[('', G.index('functions_call_tree'))] = Cell(Opaque('tree'))
        t0 = time.time()
        try:
            res = it.run(fn, [Ref(Cell(gs))], max_steps=3000, budget_s=60)
        except Unsupported as e:
            rep.inconc('closure on graph %s: %s' % (tree, e)); return
        st['graphs'] += 1; st['paths'] += len(res); st['queries'] += ctx.nq
        sol = z3.Solver(); sol.add(*ctx.constraints)
        for r in res:
            kind, p = r[0], r[1]
            st['obligations'] += 1
            if kind != 'return': rep.inconc('closure path %s on %s' % (kind, tree)); continue
            final = None
            f0 = getattr(p, 'final_set', None)
            if f0 is None: rep.inconc('result set not captured'); continue
            got = set(f0.items)
            # under this path's condition the interrupt flags are decided; compare with the reference closure
            bad = False
            for vals in itertools.product((False, True), repeat=2):
                st['queries'] += 1
                if sol.check(*(p.pc + [intr['fa'] == vals[0], intr['fb'] == vals[1]])) != z3.sat: continue
                roots = ['main'] + [n for n, v in zip(NAMES[1:], vals) if v]
                want, work = set(), list(roots)
                while work:
                    x = work.pop()
                    if x in want: continue
                    want.add(x); work += tree.get(x, [])
                if want != got:
                    bad = True
                    st['candidates'].append((tree, dict(zip(NAMES[1:], vals)), sorted(got), sorted(want)))
            if not bad: st['discharged'] += 1
        st['solver_s'] += time.time() - t0
    st['samples'].append(dict(function='compute_functions_actually_in_use', graphs=st['graphs'], verdict='published set == closure from main and interrupt handlers for every interrupt-flag assignment'))


_orig_step = Interp.step_block
def _step_block(self, p):
    fr = p.frames[-1]
    last = len(p.frames) == 1 and fr.body.blocks[fr.bb][-1] == 'return;' and fr.body.name.endswith('compute_functions_actually_in_use')
    out = _orig_step(self, p)
    if last:
        gs = S(fr.env['_1'].v); G = STRUCTS['GeneratorState']
        c = gs.fields.get(('', G.index('functions_actually_in_use')))
        if c is not None and isinstance(S(c.v), SetAbs): p.final_set = S(c.v)
    return out
Interp.step_block = _step_block


# ----------------------------------------------------------------------------- end-to-end
def call_edges(prog):
    """(caller, callee) pairs written in the source, per function"""
    edges = set()
    def walk_e(e, who):
        for x in e.walk():
            if isinstance(x, Call): edges.add((who, x.f))
    def walk_s(s, who):
        for e in s.exprs(): walk_e(e, who)
        if isinstance(s, Block):
            for _, _, init in s.decls:
                if init is not None: walk_e(init, who)
        for k in s.kids(): walk_s(k, who)
    for f in prog.funcs: walk_s(f.body, f.name)
    walk_s(prog.main, 'main')
    return edges


def graph_programs(tier):
    P = []
    F = Func
    ret = lambda e: Return(e)
    inc = lambda n: ExprS(Inc('++', False, V(n)))
    leaf = lambda n: F(n, 'u8', [('u8', 'x')], Block([ret(B('+', V('x'), C(1)))]))
    vleaf = lambda n: F(n, None, [], Block([inc('vc')]))
    def add(pid, funcs, stmts, pre='', post='', extra=('vc',)):
        p = mkprog(pid, stmts, funcs=funcs, extra_globals=list(extra)); p.pre = pre + p.pre; p.post = post
        P.append(p)
    add('g/cond', [leaf('f1')], [If(Call('f1', [V('va')]), A(V('vb'), C(1)))])
    add('g/arg', [leaf('f1'), leaf('f2')], [A(V('vb'), Call('f1', [Call('f2', [V('va')])]))])
    add('g/loopcond', [leaf('f1')], [A(V('va'), C(0)), While(B('<', Call('f1', [V('va')]), C(3)), inc('va'))])
    add('g/forparts', [leaf('f1'), leaf('f2'), vleaf('f3')], [For(Assign(V('va'), '=', Call('f1', [C(0)])), B('<', V('va'), Call('f2', [C(2)])), Inc('++', False, V('va')), ExprS(Call('f3', [])))])
    add('g/switch', [leaf('f1'), vleaf('f2'), vleaf('f3')], [Switch(Call('f1', [V('va')]), [(1, [ExprS(Call('f2', [])), Break()]), (None, [ExprS(Call('f3', []))])])])
    add('g/tern', [leaf('f1'), leaf('f2')], [A(V('vb'), Tern(V('va'), Call('f1', [V('va')]), Call('f2', [V('va')])))])
    add('g/logic', [leaf('f1'), leaf('f2')], [If(B('&&', Call('f1', [V('va')]), Call('f2', [V('vb')])), inc('vc'))])
    add('g/ret', [leaf('f1'), F('f2', 'u8', [('u8', 'y')], Block([ret(Call('f1', [V('y')]))]))], [A(V('vb'), Call('f2', [V('va')]))])
    add('g/chain4', [vleaf('f1'), F('f2', None, [], Block([ExprS(Call('f1', []))])), F('f3', None, [], Block([ExprS(Call('f2', []))])), F('f4', None, [], Block([ExprS(Call('f3', []))]))], [ExprS(Call('f4', []))])
    add('g/unused', [vleaf('f1'), vleaf('dead1'), F('dead2', None, [], Block([ExprS(Call('dead1', []))]))], [ExprS(Call('f1', []))])
    add('g/diamond', [vleaf('f1'), F('f2', None, [], Block([ExprS(Call('f1', []))])), F('f3', None, [], Block([ExprS(Call('f1', []))]))], [ExprS(Call('f2', [])), ExprS(Call('f3', []))])
    add('g/same_callee_adjacent', [vleaf('f1'), F('f2', None, [], Block([inc('vb'), ExprS(Call('f1', []))])), F('f3', None, [], Block([ExprS(Call('f1', [])), inc('vb')]))],
        [ExprS(Call('f2', [])), ExprS(Call('f3', []))], extra=('vc', 'vb'))
    add('g/twice', [vleaf('f1')], [ExprS(Call('f1', [])), ExprS(Call('f1', []))])
    add('g/proto', [vleaf('f1')], [ExprS(Call('f1', []))], pre='void f1();\n')
    add('g/interrupt', [vleaf('f1'), vleaf('f2')], [ExprS(Call('f1', []))], post='void interrupt irq() { f2(); }\n')
    add('g/interrupt_chain', [vleaf('f1'), F('f2', None, [], Block([ExprS(Call('f1', []))]))], [inc('vc')], post='void interrupt nmi() { f2(); }\nvoid interrupt irq2() { vc++; }\n')
    add('g/two_interrupts', [vleaf('f1'), vleaf('f2'), vleaf('f3')], [ExprS(Call('f3', []))], post='void interrupt i1() { f1(); }\nvoid interrupt i2() { f2(); }\n')
    add('g/proto_interrupt', [vleaf('f1'), vleaf('f2')], [ExprS(Call('f1', []))], pre='void vbl();\n', post='void interrupt vbl() { f2(); }\n')
    add('g/shared_helper', [vleaf('hlp'), vleaf('only_a'), F('fa', None, [], Block([ExprS(Call('hlp', [])), ExprS(Call('only_a', []))]))], [ExprS(Call('hlp', [])), ExprS(Call('fa', []))])
    add('g/shared_helper_irq', [vleaf('hlp'), vleaf('only_i')], [ExprS(Call('hlp', []))], post='void interrupt irq() { hlp(); only_i(); }\n')
    add('g/diamond_tail', [vleaf('f1'), vleaf('tail'), F('f2', None, [], Block([ExprS(Call('f1', [])), ExprS(Call('tail', []))])), F('f3', None, [], Block([ExprS(Call('f1', []))]))], [ExprS(Call('f3', [])), ExprS(Call('f2', []))])
    # calls in every value position: the second call of a binary operation (the first result waits in A / cctmp), index, operand of
    # a unary operator, comparison sides, argument expressions, return expressions; with and without parameters
    leaf0 = lambda n: F(n, 'u8', [], Block([ret(B('+', V('va'), C(1)))]))
    for kind, c1, c2 in (('p', lambda: Call('f1', [V('va')]), lambda: Call('f2', [V('vb')])), ('n', lambda: Call('f1', []), lambda: Call('f2', []))):
        lf = leaf if kind == 'p' else leaf0
        fs = lambda: [lf('f1'), lf('f2')]
        for op in ('+', '-', '&', '|', '^'):
            add('g/val/%s/bin%s' % (kind, op), fs(), [A(V('vd'), B(op, c1(), c2()))], extra=('vc', 'vb', 'vd'))
            add('g/val/%s/bin16%s' % (kind, op), fs(), [A(V('wa'), B(op, c1(), c2()))], extra=('vc', 'vb', 'wa'))
            add('g/val/%s/var%s' % (kind, op), fs(), [A(V('vd'), B(op, V('vc'), c2()))], extra=('vc', 'vb', 'vd'))
        for op in ('<', '==', '>='):
            add('g/val/%s/cmp%s' % (kind, op), fs(), [If(B(op, c1(), c2()), inc('vc'))], extra=('vc', 'vb'))
        add('g/val/%s/index' % kind, fs(), [A(V('vd'), Index('arr', c2()))], extra=('vc', 'vb', 'vd'))
        add('g/val/%s/index-store' % kind, fs(), [A(Index('arr', B('&', c1(), C(3))), c2())], extra=('vc', 'vb'))
        add('g/val/%s/neg' % kind, fs(), [A(V('vd'), Un('-', c2()))], extra=('vc', 'vb', 'vd'))
        add('g/val/%s/shift' % kind, fs(), [A(V('vd'), B('<<', c2(), C(1)))], extra=('vc', 'vb', 'vd'))
        add('g/val/%s/arg-sum' % kind, fs() + [leaf('f3')], [A(V('vd'), Call('f3', [B('+', c1(), c2())]))], extra=('vc', 'vb', 'vd'))
        add('g/val/%s/ret-sum' % kind, fs() + [F('f3', 'u8', [], Block([ret(B('+', c1(), c2()))]))], [A(V('vd'), Call('f3', []))], extra=('vc', 'vb', 'vd'))
        add('g/val/%s/cass' % kind, fs(), [A(V('vd'), c2(), '+=')], extra=('vc', 'vb', 'vd'))
        add('g/val/%s/tern-cond' % kind, fs(), [A(V('vd'), Tern(B('<', c1(), C(3)), c2(), C(0)))], extra=('vc', 'vb', 'vd'))
        add('g/val/%s/X' % kind, fs(), [A(V('X'), c2()), A(V('vd'), B('+', V('X'), c1()))], extra=('vc', 'vb', 'vd'))
    return P


def variants_of(p):
    """(label, args, source) : plain, every subset of callees inline, callees in bank1 (F8 scheme)"""
    names = [f.name for f in p.funcs]
    out = [('plain', [], None)]
    for r in range(1, min(len(names), 3) + 1):
        for sub in itertools.combinations(names, r):
            out.append(('inline:' + '+'.join(sub), [], sub))
    return out


def render(p, inline=(), banked=()):
    q = copy.deepcopy(p)
    for f in q.funcs: f.inline = f.name in inline
    s = q.c()
    for b in banked:
        s = re.sub(r'^((?:inline )?(?:void|unsigned char|signed char|unsigned short|signed short) %s\()' % re.escape(b), r'bank1 \1', s, flags=re.M)
    post = getattr(p, 'post', '')
    if post: s = s.replace('void main()', post + 'void main()')
    return s


ROMSEL = 'unsigned char * const ROM_SELECT = 0x3f;\n'      # declared by the platform headers


def check_end_to_end(rep, tier, st):
    progs = graph_programs(tier) + families2.g_call(tier)
    import check_c14
    progs += check_c14.extra_programs()
    reqs, meta = [], {}
    for p in progs:
        if not hasattr(p, 'post'): p.post = ''
        names = [f.name for f in p.funcs]
        subsets = [()] + [s for r in range(1, min(len(names), 3) + 1) for s in itertools.combinations(names, r)]
        for sub in subsets:
            for lvl in ('-O1', '-O0'):
                rid = '%s@inline:%s%s' % (p.pid, '+'.join(sub), lvl)
                reqs.append((rid, [lvl], render(p, inline=sub))); meta[rid] = (p, sub, ())
        for b in names:
            rid = '%s@bank1:%s' % (p.pid, b)
            reqs.append((rid, ['-O1'], render(p, banked=(b,)))); meta[rid] = (p, (), (b,))
            # the other bankswitching schemes have their own call sequences (direct JSR, LDA/STA ROM_SELECT/JSR, CallX stub)
            for sn, d in (('3E', '__3E__'), ('3EP', '__3E_PLUS__'), ('SG', '__SUPERGAME__'), ('SGX', '__SUPERGAME_EXFIX__')):
                rid = '%s@bank1:%s/%s' % (p.pid, b, sn)
                reqs.append((rid, ['-O1', '-D' + d], ROMSEL + render(p, banked=(b,)))); meta[rid] = (p, (), (b,))
            rid = '%s@bank7:%s/SGX' % (p.pid, b)
            reqs.append((rid, ['-O1', '-D__SUPERGAME_EXFIX__'], ROMSEL + render(p, banked=(b,)).replace('bank1 ', 'bank7 '))); meta[rid] = (p, (), (b,))
    R = common.compile_many(reqs)
    srcs = {i: s for i, a, s in reqs}; argsof = {i: a for i, a, s in reqs}
    for rid, (p, sub, banked) in meta.items():
        c = R[rid]
        if c.status != 'ok': st['rejected'] += 1; continue
        st['programs'] += 1
        tree = c.calltree
        def closure(roots):
            seen, work = set(), list(roots)
            while work:
                x = work.pop()
                if x in seen: continue
                seen.add(x); work += tree.get(x, [])
            return seen
        problems = []
        # (1) every call written in the source is recorded for its caller
        post_edges = set()
        for m in re.finditer(r'void interrupt (\w+)\(\) \{ ([^}]*)\}', getattr(p, 'post', '')):
            for cm in re.finditer(r'(\w+)\(\);', m.group(2)): post_edges.add((m.group(1), cm.group(1)))
        for a, b in sorted(call_edges(p) | post_edges):
            if b not in tree.get(a, []): problems.append('call %s -> %s is not in the published call tree (%s)' % (a, b, tree.get(a)))
        # (2) every JSR of the emitted code leads to a function reachable through the tree
        for f in c.order:
            if not c.funcs[f]['has_code']: continue
            for l in c.funcs[f]['lines']:
                m = re.match(r'\s+JSR\s+(\S+)', l)
                if m:
                    tgt = m.group(1)[4:] if m.group(1).startswith('Call') and m.group(1)[4:] in c.funcs else m.group(1)
                    if tgt not in closure([f]): problems.append('%s contains `JSR %s` but %s is not reachable from %s in the published tree' % (f, m.group(1), tgt, f))
        # (3) in-use set == closure from main and the interrupt handlers
        # handlers are taken from the source text (a definition qualified `interrupt`), not from the compiler's own flag
        src_handlers = set(re.findall(r'void interrupt (\w+)\(', srcs[rid]))
        for f in c.order:
            if c.funcs[f]['interrupt'] != (f in src_handlers): problems.append('%s is %sdefined `interrupt` in the source but published with interrupt=%s' % (f, '' if f in src_handlers else 'not ', c.funcs[f]['interrupt']))
        roots = ['main'] + sorted(src_handlers)
        want = closure(roots)
        if set(c.inuse) != want: problems.append('functions in use %s, reachable from main and interrupt handlers %s' % (sorted(c.inuse), sorted(want)))
        if problems:
            rep.violation('calls:%s' % rid, '%s: %s' % (rid, '; '.join(problems[:3])), dict(kind='calls', source=srcs[rid], args=argsof[rid], calltree=tree, inuse=c.inuse, problems=problems))
        else: st['programs_ok'] += 1


def replay_closure(rep, st):
    """E-MIR closure counterexamples replayed with a real program having that call graph"""
    seen = set()
    for tree, intr, got, want in st['candidates']:
        key = json.dumps([tree, intr], sort_keys=True)
        if key in seen: continue
        seen.add(key)
        body = lambda n: ' '.join('%s();' % c for c in tree.get(n, []) if c != 'main' and c != n)     # no recursion / calls of main in the replay
        src = 'char v;\nvoid fa();\nvoid fb();\n' + ''.join('void %s%s() { v++; %s }\n' % ('interrupt ' if intr.get(n) else '', n, body(n)) for n in ('fb', 'fa')) + 'void main() { %s }\n' % body('main')
        if any(intr.get(c) for n in tree for c in tree[n]): continue       # calling an interrupt routine is rejected by the compiler
        c = common.compile_one(src); st['replays'] += 1
        if c.status != 'ok': continue
        t2 = c.calltree
        seen2, work = set(), ['main'] + [n for n in ('fa', 'fb') if intr.get(n)]
        while work:
            x = work.pop()
            if x in seen2: continue
            seen2.add(x); work += t2.get(x, [])
        if set(c.inuse) != seen2:
            rep.violation('closure.%s' % re.sub(r'\W+', '_', key)[:80], 'call tree %s with interrupt handlers %s: functions in use %s, reachable %s' % (t2, [n for n in intr if intr[n]], sorted(c.inuse), sorted(seen2)),
                          dict(kind='calls', source=src, args=[], calltree=t2, inuse=c.inuse))
            return
    if st['candidates']: rep.inconc('closure counterexamples from the MIR did not reproduce through compile(): %s' % (st['candidates'][0],))


def run(tier):
    import json as _j
    globals()['json'] = _j
    rep = common.Report('C12', tier, 'other')
    common.build_driver()
    st = collections.defaultdict(int); st['functions'] = []; st['samples'] = []; st['candidates'] = []
    mir = load('on')
    check_closure(rep, mir, tier, st)
    replay_closure(rep, st)
    check_end_to_end(rep, tier, st)
    rep.cov = dict(explanation='(a) compute_functions_actually_in_use with function_is_actually_in_use inlined, executed from the rustc MIR of the current tree on every call tree over the names {main, fa, fb} '
                   '(512 adjacency matrices; quick: a subset) with symbolic interrupt flags: the published set is compared with the reflexive-transitive closure from main and the interrupt handlers under every flag assignment the path allows; '
                   '(b) end-to-end over call-graph programs x every subset of callees inline x banked callees x -O0/-O1: source-level call edges (from my AST) are in the published tree, every emitted JSR leads into the closure, in-use set == closure',
                   obligations=st['obligations'], discharged=st['discharged'], evaluations=st['paths'] + st['programs'], distinct_nontrivial=st['graphs'] + st['programs'], functions_encoded=st['functions'], graphs=st['graphs'], paths=st['paths'],
                   queries=st['queries'], solver_s=round(st['solver_s'], 1), replays=st['replays'], programs=st['programs'], programs_ok=st['programs_ok'], rejected_variants=st['rejected'], samples=st['samples'],
                   bounds=dict(closure='<= 3 functions (the recursion is uniform in the node count: stated, not proved)', end_to_end='call depth <= 4, <= 3 callees inlined at once, one banked callee at a time'),
                   trusted_base=['mirsym + HashMap/HashSet/Vec models on concrete keys', 'z3', 'driver'])
    rep.assumptions = ['that a recorded call names the right function text is checked only end-to-end', 'recursion is not generated']
    return rep.finish()

"""C09 String and character literals are stored byte-exact (restricted scope, see DESIGN).
(a) E-MIR: compile_quoted_string_ex (the escape decoder) executed from MIR on bounded symbolic strings (every character symbolic
    over an alphabet containing the backslash, the quote and every escape letter): z3 decides that the decoded output equals the
    C escape table character for character, on every path.
(b) end-to-end: literals with tricky contents (//, /* */, #, escaped quotes and backslashes, macro names, every escape) at every
    place a literal may appear, several per line, inside skipped regions followed by live ones, ending in \\0: the bytes the compiler
    stores are compared with an independent reference decoder + one NUL."""
import itertools, time, collections, re
import z3
import common
from base import *

ALPHA = ['\\', '"', 'n', 'r', 't', 'a', 'b', 'f', 'v', '0', 'x', '/', '*', ' ']
ESC = {'0': 0, 'n': 10, 'r': 13, 'a': 7, 'b': 8, 't': 9, 'f': 12, 'v': 11}


class StrBuf:
    def __init__(self): self.items = []


def check_decoder(rep, mir, tier, st):
    fn = mir.find('compile_quoted_string_ex') if 'compile_quoted_string_ex' in mir.index else [n for n in mir.index if n.endswith('compile_quoted_string_ex')][0]
    st['functions'].append(fn)
    L = 4 if tier == 'quick' else 6
    for n in range(0, L + 1):
        ctx = Ctx(mir)
        chars = [z3.BitVec('c%d' % k, 32) for k in range(n)]
        for ch in chars: ctx.constraints.append(z3.Or(*[ch == ord(a) for a in ALPHA]))
        def m_chars(i, p, fr, c, a, d, r): return ret(p, fr, d, r, Opaque('chars', [chars, 0]))
        def m_next(i, p, fr, c, a, d, r):
            it = S(a[0]); t, k = it.payload
            if k < len(t): it.payload[1] += 1; p.events.append(('next', k, None)); return ret(p, fr, d, r, opt(t[k]))
            return ret(p, fr, d, r, opt(None))
        def m_new(i, p, fr, c, a, d, r): return ret(p, fr, d, r, StrBuf())
        def m_push(i, p, fr, c, a, d, r):
            S(a[0]).items.append(a[1]); p.events.append(('push', a[1], None)); return ret(p, fr, d, r, Opaque('unit'))
        def m_from_u32(i, p, fr, c, a, d, r): return ret(p, fr, d, r, opt(a[0]))
        M = dict(LIB); M.update({r'impl str>::chars$': m_chars, r'<Chars<.*> as Iterator>::next$': m_next, r'String::new$': m_new, r'String::push$': m_push, r'impl char>::from_u32$': m_from_u32})
        it = Interp(ctx, inline=[], models=M); it.assume_some = False; it.allow_uninterpreted = []
        t0 = time.time()
        try:
            res = it.run(fn, [Ref(Cell(Opaque('text')))], max_steps=600, budget_s=300)
        except Unsupported as e:
            rep.inconc('decoder with %d characters: %s' % (n, e)); break
        st['paths'] += len(res); st['queries'] += ctx.nq
        sol = z3.Solver(); sol.add(*ctx.constraints)
        for r in res:
            kind, p = r[0], r[1]
            st['obligations'] += 1
            if kind != 'return':
                m = sol.model() if sol.check(*p.pc) == z3.sat else None
                txt = ''.join(chr(m.eval(ch, model_completion=True).as_long()) for ch in chars) if m else '?'
                st['candidates'].append((txt, 'decoder %s' % kind)); continue
            out = [e[1] for e in p.events if e[0] == 'push']
            # reference decoder driven over the same symbolic characters: the grouping (escape pair or plain) is fixed by the path condition
            exp, k, ok = [], 0, True
            while k < n:
                st['queries'] += 1
                is_bs = sol.check(*(p.pc + [chars[k] != ord('\\')])) == z3.unsat
                not_bs = sol.check(*(p.pc + [chars[k] == ord('\\')])) == z3.unsat
                if not (is_bs or not_bs): ok = False; break
                if not_bs: exp.append(chars[k]); k += 1
                elif k + 1 < n:
                    e = chars[k + 1]; t = e
                    for ch_, v in ESC.items(): t = z3.If(e == ord(ch_), z3.BitVecVal(v, 32), t)
                    exp.append(t); k += 2
                else: k += 1            # a lone trailing backslash denotes nothing
            if not ok:
                rep.inconc('decoder path does not determine whether character %d is a backslash' % k); continue
            st['queries'] += 1
            bad = z3.BoolVal(True) if len(out) != len(exp) else z3.Or(*[a != b for a, b in zip(out, exp)]) if out else z3.BoolVal(False)
            if sol.check(*(p.pc + [bad])) == z3.unsat: st['discharged'] += 1; continue
            m = sol.model()
            txt = ''.join(chr(m.eval(ch, model_completion=True).as_long()) for ch in chars)
            st['candidates'].append((txt, 'decoder output differs'))
        st['solver_s'] += time.time() - t0
    st['samples'].append(dict(function=fn, lengths='0..%d' % L, alphabet=ALPHA, verdict='decoded output equals the C escape table on every path for every character assignment (unsat)'))


def ref_decode(s):
    out, k = [], 0
    while k < len(s):
        if s[k] == '\\':
            if k + 1 < len(s):
                e = s[k + 1]; out.append(ESC.get(e, ord(e))); k += 2
            else: k += 1
        else: out.append(ord(s[k])); k += 1
    return out


def stored(c, name):
    """bytes of the ROM array `name` (or of the literal it points to)"""
    vs = {v['name']: v for v in c.vars}
    if name not in vs: return None
    d = vs[name]['d']
    if d.startswith('Array(['): return [int(x) & 0xff for x in re.findall(r'Int\((-?\d+)\)', d)]
    return d


def fragments():
    return ['plain', 'a//b', 'a/*b*/c', '/*', '*/', '#define X', '#if 0', 'MACRO', 'say \\"hi\\"', 'back\\\\slash', 'end\\\\', 'tab\\there', 'nl\\n', 'all\\a\\b\\f\\v\\r\\t\\n', 'nul\\0mid',
            'trail\\0', '', ' ', 'it\'s', 'q\\"//x', '@1@', 'a @0@ b', 'semi;colon', '{brace}', '\\\\\\"', 'x\\\\n', '%d', 'MACRO MACRO', '#include <x.h>', 'see #include \\"y.h\\" here', '#error no', '#endif', 'a \\\\', "'", '??/', 'C:\\\\x86\\\\BIN', '\\\\x41', 'a\\\\n\\\\t', '\\\\0\\\\a']


def programs(tier):
    F = fragments()
    P = []
    pre = '#define MACRO 7\n'
    for k, f in enumerate(F):
        want = ref_decode(f) + [0]
        P.append(('init/%d' % k, pre + 'const char s[] = "%s";\nvoid main() {}\n' % f, [('s', want)]))
        P.append(('ptr/%d' % k, pre + 'const char *s = "%s";\nvoid main() {}\n' % f, [('s', want)]))
        P.append(('adjacent/%d' % k, pre + 'const char s[] = "%s" "tail";\nvoid main() {}\n' % f, [('s', ref_decode(f) + ref_decode('tail') + [0])]))
        P.append(('comment-after/%d' % k, pre + 'const char s[] = "%s"; // trailing "comment\nconst char t[] = "%s"; /* block "comment */\nvoid main() {}\n' % (f, f), [('s', want), ('t', want)]))
    pairs = list(itertools.product(range(len(F)), repeat=2))
    if tier == 'quick': pairs = [(a, b) for a, b in pairs if (a * 7 + b * 3) % 5 == 0]
    for a, b in pairs:
        fa, fb = F[a], F[b]
        P.append(('two-per-line/%d/%d' % (a, b), pre + 'const char s[] = "%s"; const char t[] = "%s";\nvoid main() {}\n' % (fa, fb), [('s', ref_decode(fa) + [0]), ('t', ref_decode(fb) + [0])]))
        P.append(('table/%d/%d' % (a, b), pre + 'const char *tab[] = {"%s", "%s"};\nvoid main() {}\n' % (fa, fb), [('cctmp0', ref_decode(fa) + [0]), ('cctmp1', ref_decode(fb) + [0])]))
        if (a + b) % 3 == 0:
            P.append(('skipped-then-live/%d/%d' % (a, b), pre + '#ifdef NOT_DEFINED\nconst char dead[] = "%s";\n#endif\nconst char s[] = "%s";\nconst char t[] = "%s";\nvoid main() {}\n' % (fa, fb, fa),
                      [('s', ref_decode(fb) + [0]), ('t', ref_decode(fa) + [0])]))
            P.append(('local-then-global/%d/%d' % (a, b), pre + 'char *gp;\nvoid f() { char *p = "%s"; gp = p; }\nvoid main() { gp = "%s"; }\n' % (fa, fb), [('cctmp0', ref_decode(fa) + [0]), ('cctmp1', ref_decode(fb) + [0])]))
            P.append(('call-args/%d/%d' % (a, b), pre + 'char *gp; char *gq;\nvoid f(char *x, char *y) { gp = x; gq = y; }\nvoid main() { f("%s", "%s"); }\n' % (fa, fb), [('cctmp0', ref_decode(fa) + [0]), ('cctmp1', ref_decode(fb) + [0])]))
    # literals in nested calls and parenthesised sub-expressions of one expression
    for a, b, cc in itertools.product(range(0, len(F), 5), range(1, len(F), 6), range(2, len(F), 9)):
        fa, fb, fc = F[a], F[b], F[cc]
        P.append(('nested-call/%d/%d/%d' % (a, b, cc), pre + 'char *g1; char *g2; char *g3;\nchar g(char *x) { g2 = x; return 1; }\nvoid f(char *p, char q, char *r) { g1 = p; g3 = r; }\nvoid main() { f("%s", g("%s"), ("%s")); }\n' % (fa, fb, fc),
                  [('cctmp0', ref_decode(fa) + [0]), ('cctmp1', ref_decode(fb) + [0]), ('cctmp2', ref_decode(fc) + [0])]))
    # literals inside the initialiser of a local variable (its own expression parser): parenthesised, in ?: alternatives, in nested calls
    for a, b, cc in itertools.product(range(0, len(F), 4), range(1, len(F), 5), range(2, len(F), 11)):
        fa, fb, fc = F[a], F[b], F[cc]
        P.append(('local-init-tern/%d/%d' % (a, b), pre + 'char k; char *gp;\nvoid main() { char *q = k ? ("%s") : "%s"; gp = q; }\n' % (fa, fb), [('cctmp0', ref_decode(fa) + [0]), ('cctmp1', ref_decode(fb) + [0])]))
        P.append(('local-init-call/%d/%d/%d' % (a, b, cc), pre + 'char *g1; char *g2; char *g3; char r;\nchar g(char *x) { g2 = x; return 1; }\nchar pick(char *p, char q, char *s) { g1 = p; g3 = s; return q; }\n'
                  'void main() { char c = pick(("%s"), g("%s"), "%s"); r = c; }\n' % (fa, fb, fc), [('cctmp0', ref_decode(fa) + [0]), ('cctmp1', ref_decode(fb) + [0]), ('cctmp2', ref_decode(fc) + [0])]))
        P.append(('local-init-sum-of-calls/%d/%d' % (a, b), pre + 'char *g1; char *g2; char r;\nchar f(char *s) { if (r) g2 = s; else g1 = s; r = 1; return 2; }\nvoid main() { r = 0; char t = f("%s") + f("%s"); r = t; }\n' % (fa, fb),
                  [('cctmp0', ref_decode(fa) + [0]), ('cctmp1', ref_decode(fb) + [0])]))
        P.append(('local-init-two-decls/%d/%d' % (a, b), pre + 'char *g1; char *g2;\nvoid main() { char *p = ("%s"); char *q = "%s"; g1 = p; g2 = q; }\n' % (fa, fb), [('cctmp0', ref_decode(fa) + [0]), ('cctmp1', ref_decode(fb) + [0])]))
    # character constants
    for ch, code in [('a', 97), (' ', 32), ('\\n', 10), ('\\t', 9), ('\\0', 0), ('\\\\', 92), ("\\'", 39), ('"', 34), ('/', 47), ('*', 42), ('#', 35), ('\\f', 12), ('\\v', 11), ('\\a', 7), ('\\b', 8), ('\\r', 13), ('@', 64)]:
        P.append(('char/%s' % ch, "const char k = '%s';\nvoid main() {}\n" % ch, [('k', 'Value(Int(%d))' % code)]))
        P.append(('char-stmt/%s' % ch, "char c;\nvoid main() { c = '%s'; }\n" % ch, []))
    # a macro whose name also occurs INSIDE a literal: literals are not subject to macro replacement
    for mname, val in (('A', '1'), ('AB', '7'), ('x', '66')):
        txt = '%s and %s, (%s)' % (mname, mname, mname)
        P.append(('macro-in-string/%s' % mname, '#define %s %s\nconst char s[] = "%s";\nchar v;\nvoid main() { v = %s; }\n' % (mname, val, txt, mname), [('s', ref_decode(txt) + [0])]))
        P.append(('macro-in-string-arg/%s' % mname, '#define %s %s\nchar *g1;\nvoid f(char *p) { g1 = p; }\nvoid main() { f("%s"); }\n' % (mname, val, txt), [('cctmp0', ref_decode(txt) + [0])]))
        if len(mname) == 1:
            P.append(('macro-in-char/%s' % mname, "#define %s %s\nconst char k = '%s';\nvoid main() {}\n" % (mname, val, mname), [('k', 'Value(Int(%d))' % ord(mname))]))
    return P


def check_end_to_end(rep, tier, st):
    P = programs(tier)
    R = common.compile_many([(pid, [], src) for pid, src, exp in P])
    for pid, src, exp in P:
        c = R[pid]
        st['programs'] += 1
        if c.status in ('panic', 'timeout', 'crash'):
            rep.violation('lit.crash.' + pid, 'literal program %s: compiler %s: %s' % (pid, c.status, c.msg), dict(kind='lit', source=src, got=[c.status, c.msg])); continue
        if c.status != 'ok':
            rep.violation('lit.rejected.' + pid, 'valid literal program %s rejected: %s\n%s' % (pid, c.msg, src), dict(kind='lit', source=src, got=[c.status, c.msg])); continue
        okp = True
        for name, want in exp:
            got = stored(c, name)
            if got != want:
                okp = False
                rep.violation('lit.bytes.' + pid, 'literal program %s: %s holds %s, the source denotes %s\n%s' % (pid, name, got, want, src), dict(kind='lit', source=src, variable=name, expect=want, got=got))
        if okp: st['programs_ok'] += 1


def replay_decoder(rep, st):
    seen = set()
    for txt, what in st['candidates']:
        if txt in seen or '"' in txt.replace('\\"', ''): continue
        seen.add(txt)
        src = 'const char s[] = "%s";\nvoid main() {}\n' % txt
        c = common.compile_one(src); st['replays'] += 1
        want = ref_decode(txt) + [0]
        got = stored(c, 's') if c.status == 'ok' else (c.status, c.msg)
        if got == want: rep.inconc('decoder model %r (%s) did not reproduce through compile()' % (txt, what)); continue
        rep.violation('decoder.%s' % re.sub(r'\W', lambda m: '%02x' % ord(m.group(0)), txt), 'literal "%s": the decoder stores %s, C denotes %s (%s)' % (txt, got, want, what), dict(kind='lit', source=src, expect=want, got=got))


def run(tier):
    rep = common.Report('C09', tier, 'other')
    common.build_driver()
    st = collections.defaultdict(int); st['functions'] = []; st['samples'] = []; st['candidates'] = []
    mir = load('on')
    check_decoder(rep, mir, tier, st)
    replay_decoder(rep, st)
    check_end_to_end(rep, tier, st)
    rep.cov = dict(explanation='(a) compile_quoted_string_ex executed from the rustc MIR of the current tree on bounded symbolic strings (every character symbolic over an alphabet with the backslash, the quote, all escape letters and comment characters): '
                   'z3 decides on every path that the pushed characters equal the C escape table; (b) end-to-end literal programs: tricky contents x positions (initialiser, pointer, adjacent literals, tables, call arguments, local initialisers, '
                   'skipped regions before live ones, two per line, before comments) and character constants; stored bytes compared with an independent reference decoder + one NUL',
                   obligations=st['obligations'], discharged=st['discharged'], evaluations=st['paths'] + st['programs'], distinct_nontrivial=st['obligations'], functions_encoded=st['functions'], paths=st['paths'], queries=st['queries'],
                   solver_s=round(st['solver_s'], 1), replays=st['replays'], literal_programs=st['programs'], literal_programs_ok=st['programs_ok'], samples=st['samples'],
                   bounds=dict(decoder_length='<= %d characters' % (4 if tier == 'quick' else 6), alphabet=ALPHA, end_to_end='28 content fragments, all (quick: 1/5 of) ordered pairs in 5 positions'),
                   scope='the decoder is decided by the solver; the literal-extraction scanner of cpp::process and the NUL terminator are exercised end-to-end only', trusted_base=['mirsym + Chars/String models', 'z3', 'driver'])
    rep.assumptions = ['ASCII', 'a lone trailing backslash denotes nothing', 'unknown escapes denote the escaped character itself']
    return rep.finish()

"""MIR dump of /repo's current working tree (nightly -Zunpretty=mir), regenerated whenever a source file changes."""
import os, subprocess, shutil, hashlib, fcntl, time
import common

NIGHTLY_TARGET = os.path.join(common.CACHE, 'nightly-target')


def _dump(overflow_checks):
    h = common.repo_hash()
    tag = 'verifrepo' if common.REPO == '/repo' else hashlib.md5(common.REPO.encode()).hexdigest()[:8]
    out = os.path.join(common.CACHE, 'mir-%s-%s-oc%s.txt' % (tag, h, overflow_checks))
    if os.path.exists(out) and os.path.getsize(out) > 100000:
        return out
    os.makedirs(common.CACHE, exist_ok=True)
    with open(os.path.join(common.CACHE, 'mir.lock'), 'w') as lk:
        fcntl.flock(lk, fcntl.LOCK_EX)
        if os.path.exists(out) and os.path.getsize(out) > 100000:
            return out
        # cargo only re-runs rustc when the crate is dirty: touch lib.rs through a private copy of the sources
        src = os.path.join(common.CACHE, 'mirsrc-' + tag)
        shutil.rmtree(src, ignore_errors=True)
        os.makedirs(src)
        shutil.copytree(os.path.join(common.REPO, 'src'), os.path.join(src, 'src'))
        shutil.copy(os.path.join(common.REPO, 'Cargo.toml'), src)
        shutil.copy(os.path.join(common.REPO, 'Cargo.lock'), src)
        env = dict(common.ENV, CARGO_TARGET_DIR=NIGHTLY_TARGET)
        r = subprocess.run(['cargo', '+nightly', 'rustc', '--offline', '--lib', '--features', 'atari2600', '--', '-Zunpretty=mir',
                            '-C', 'debug-assertions=off', '-C', 'overflow-checks=%s' % overflow_checks],
                           cwd=src, env=env, capture_output=True, text=True)
        shutil.rmtree(src, ignore_errors=True)
        if r.returncode != 0 or len(r.stdout) < 100000:
            raise common.EngineError('MIR dump failed:\n' + r.stderr[-2000:])
        for f in os.listdir(common.CACHE):     # drop dumps of older trees
            if f.startswith('mir-%s-' % tag) and h not in f:
                os.remove(os.path.join(common.CACHE, f))
        open(out, 'w').write(r.stdout)
    return out


def mir_path(overflow_checks='on'):
    return _dump(overflow_checks)


def prepare():
    t = time.time()
    p = mir_path('on')
    print('MIR dump ready: %s (%d bytes, %.1fs)' % (p, os.path.getsize(p), time.time() - t))

import sys, os, importlib, traceback
HERE = os.path.dirname(os.path.abspath(__file__))
VERIF = os.path.dirname(HERE)
for d in ('lib', 'tv', 'mirsym', 'checks'):
    sys.path.insert(0, os.path.join(VERIF, d))
import common


def main():
    a = sys.argv[1:]
    if not a:
        print('usage: check <ID> [--tier quick|thorough] | replay <path> | setup'); return 2
    if a[0] == 'setup':
        import setup_all
        return setup_all.main()
    if a[0] == 'replay':
        import replay
        return replay.main(a[1])
    if a[0] == 'selftest':
        import selftest
        return selftest.main(a[1:])
    pid = a[0]
    tier = 'quick'
    if '--tier' in a: tier = a[a.index('--tier') + 1]
    tier = os.environ.get('VERIF_TIER') or tier
    if tier not in ('quick', 'thorough'): tier = 'quick'
    try:
        mod = importlib.import_module('check_' + pid.lower())
    except ModuleNotFoundError:
        print('no check for', pid); return 2
    try:
        return mod.run(tier)
    except common.EngineError as e:
        print('ENGINE-ERROR property=%s %s' % (pid, e)); return 2
    except Exception:
        traceback.print_exc()
        print('ENGINE-ERROR property=%s unexpected exception' % pid); return 2


if __name__ == '__main__':
    sys.exit(main())

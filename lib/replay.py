"""./check replay <path>: re-run one recorded violation against /repo's current working tree.
Exit 1 if it still reproduces, 0 if not, 2 if the replay kind is unknown / cannot run."""
import json, sys, os
import common


def main(path):
    j = json.load(open(path))
    r = j.get('replay') or {}
    kind = r.get('kind')
    print('property=%s key=%s' % (j.get('property'), j.get('key')))
    print(j.get('what', '')[:800])
    common.build_driver()
    if kind == 'tv-relational':
        return relational(r)
    if kind == 'tv-reference':
        return reference(r)
    if kind == 'mir-branch':
        out = common.asm_many('B', [('r', r['spec'])])['r']
        print('real check_branches on the layout:'); print(out.get('text') or out)
        return 1 if out.get('status') != 'ok' else show_same(out.get('text', '').split('\n'), r.get('result'))
    src = r.get('source')
    if src is None:
        print('no source recorded for kind', kind); return 2
    args = list(r.get('args') or r.get('args_variant') or [])
    for d in r.get('defines') or []: args += ['-D', d]
    if kind in ('nondet', 'history'):
        import subprocess
        sys.path.insert(0, os.path.join(common.VERIF, 'checks')); sys.path.insert(0, os.path.join(common.VERIF, 'tv'))
        import check_c05
        outs = set()
        for k in range(int(r.get('runs', 10))):
            items = ([('first', args, r['first'])] if kind == 'history' else []) + [('p', args, src)]
            outs.add(json.dumps(check_c05.run_batch(items)[-1]))
        if kind == 'history': outs.add(json.dumps(check_c05.run_batch([('p', args, src)])[0]))
        print('%d distinct outcomes' % len(outs))
        return 1 if len(outs) > 1 else 0
    c = common.compile_one(src, args)
    print('compile: status=%s msg=%s loc=%s' % (c.status, c.msg, c.loc))
    if c.status == 'ok':
        for f in c.order:
            if c.funcs[f]['has_code']: print('%s: (size_bytes=%d)' % (f, c.funcs[f]['size'])); print(c.text(f))
        print('calltree', c.calltree, 'inuse', c.inuse)
        for v in c.vars:
            if v['d'] != 'None': print('var', v['name'], v['d'][:100])
    if c.err: print('error:', c.err)
    exp, got = r.get('expect'), r.get('got')
    print('recorded: expected %s, got %s' % (exp, got))
    if kind == 'total': return 1 if c.status in ('panic', 'timeout', 'crash') else 0
    # for the remaining kinds the recorded observation is compared with the fresh one
    fresh = [c.status, c.msg]
    return 1 if got is not None and (c.status == (got[0] if isinstance(got, list) else got)) else 0


def show_same(a, b):
    a = [x for x in a if x.strip()]
    print('recorded result:', b)
    return 1 if b is None or a == b else 0


def _variant(sess, src, args):
    c = common.compile_one(src, args)
    if c.status != 'ok':
        print('does not compile any more:', c.status, c.msg); return None
    return sess.variant(c)


def relational(r):
    sys.path.insert(0, os.path.join(common.VERIF, 'tv'))
    from equiv import Session, run_concrete, concrete_obs
    S = Session()
    va = _variant(S, r['source_base'], r.get('args_base', []))
    vb = _variant(S, r['source_variant'], r.get('args_variant', []))
    if va is None or vb is None: return 0
    regs = r['initial_state']; mem = {int(k, 16): v for k, v in (r.get('memory') or {}).items()}
    sa, sb = run_concrete(va, regs, mem), run_concrete(vb, regs, mem)
    if sa is None or sb is None:
        print('termination: base %s, variant %s' % (sa is not None, sb is not None)); return 1 if (sa is None) != (sb is None) else 0
    names = [n for n, a, nb, v in va.layout.ram]
    oa, ob = concrete_obs(va, names, sa), concrete_obs(vb, names, sb)
    d = {k: (oa[k], ob.get(k)) for k in oa if k in ob and oa[k] != ob[k]}
    print('initial state', regs); print('differences (base, variant):', dict(list(d.items())[:10]))
    return 1 if d else 0


def reference(r):
    print('source:'); print(r['source'])
    c = common.compile_one(r['source'], r.get('args', []))
    print('compile: %s' % c.status)
    if c.status != 'ok': return 0
    for f in c.order:
        if c.funcs[f]['has_code']: print(f + ':'); print(c.text(f))
    sys.path.insert(0, os.path.join(common.VERIF, 'tv'))
    from equiv import Session, run_concrete, concrete_obs
    S = Session(); v = S.variant(c)
    d = r['details'].get('ISO') or list(r['details'].values())[0]
    mem = {int(k, 16): x for k, x in (d.get('mem') or {}).items()}
    s = run_concrete(v, d['regs'], mem)
    if s is None:
        print('emitted code does not terminate from', d['regs']); return 1
    o = concrete_obs(v, [n for n, a, nb, vv in v.layout.ram], s)
    bad = {k: (e['expected'], o.get(k)) for k, e in (d.get('diffs') or {}).items() if o.get(k) != e['expected']}
    print('initial state', d['regs']); print('(expected by the C semantics, computed by the emitted code):', bad)
    return 1 if bad or d.get('termination') else 0

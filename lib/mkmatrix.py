"""Development-time tool: seeded/MATRIX.md from every seeded/<id>/meta.json."""
import os, json, glob
VERIF = os.path.dirname(os.path.dirname(os.path.abspath(__file__)))
rows = []
for mj in sorted(glob.glob(os.path.join(VERIF, 'seeded', '*', 'meta.json'))):
    m = json.load(open(mj)); rows.append((m['id'], m['breaks_property'], m.get('checks_run', {}).get('results', {})))
with open(os.path.join(VERIF, 'seeded', 'MATRIX.md'), 'w') as f:
    f.write('# Seeded changes vs checks\n\nexit 1 = the check reports a VIOLATION on the changed tree; 0 = passes; 2 = could not decide. Quick tier.\n\n| change | property | results |\n|---|---|---|\n')
    for name, prop, caught in rows:
        f.write('| %s | %s | %s |\n' % (name, prop, ', '.join('%s: exit %d (%d)' % (k, v['exit'], v['violations']) for k, v in sorted(caught.items())) or 'not run'))
    own = [(n, p, c) for n, p, c in rows if p in c]
    anyc = [(n, p, c) for n, p, c in rows if c]
    f.write('\n%d changes; own-property check exits 1 for %d of %d run; some check exits 1 for %d of %d run.\n' % (len(rows), sum(1 for n, p, c in own if c[p]['exit'] == 1), len(own),
            sum(1 for n, p, c in anyc if any(v['exit'] == 1 for v in c.values())), len(anyc)))
print(len(rows), 'rows in MATRIX.md')

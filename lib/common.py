"""Shared plumbing: driver build, batch compilation through the real cc6502, evidence files, known findings."""
import os, sys, json, subprocess, hashlib, time, glob, re, tempfile, shutil, concurrent.futures

VERIF = os.path.dirname(os.path.dirname(os.path.abspath(__file__)))
REPO = os.environ.get('VERIF_REPO', '/repo')
DRV_DIR = os.path.join(VERIF, 'driver')
CACHE = os.path.join(VERIF, '.cache')
NCPU = min(16, os.cpu_count() or 4)
ENV = dict(os.environ, CARGO_NET_OFFLINE='true')


class EngineError(Exception):
    """The machinery could not decide (exit code 2) - never reported as 'held'."""


def repo_hash():
    h = hashlib.sha256()
    files = sorted(glob.glob(REPO + '/src/**/*', recursive=True)) + [REPO + '/Cargo.toml']
    for f in files:
        if os.path.isfile(f):
            h.update(f.encode()); h.update(open(f, 'rb').read())
    return h.hexdigest()[:16]


_drv_bin = None

def build_driver():
    """(Re)build the driver against /repo's current working tree. cargo's own dependency tracking
    recompiles cc6502 whenever a source under REPO changed (path dependency)."""
    global _drv_bin
    if _drv_bin:
        return _drv_bin
    if REPO == '/repo':
        d, tdir = DRV_DIR, os.path.join(DRV_DIR, 'target')
    else:
        # selftest against a scratch copy: private driver copy that points at the copy
        d = os.path.join(REPO, '.verif_drv')
        os.makedirs(d + '/src', exist_ok=True)
        shutil.copy(DRV_DIR + '/src/main.rs', d + '/src/main.rs')
        open(d + '/Cargo.toml', 'w').write(open(DRV_DIR + '/Cargo.toml').read().replace('path = "/repo"', 'path = "%s"' % REPO))
        tdir = os.path.join(d, 'target')
    shutil.copy(REPO + '/Cargo.lock', d + '/Cargo.lock')
    import fcntl
    os.makedirs(CACHE, exist_ok=True)
    with open(os.path.join(CACHE, 'drv.lock'), 'w') as lk:
        fcntl.flock(lk, fcntl.LOCK_EX)
        r = subprocess.run(['cargo', 'build', '--offline', '--quiet'], cwd=d, env=ENV, capture_output=True, text=True)
    if r.returncode != 0:
        raise EngineError('driver build failed (does /repo still compile?):\n' + r.stderr[-3000:])
    _drv_bin = os.path.join(tdir, 'debug', 'ccdrv')
    return _drv_bin


def _hex(s):
    return (s if isinstance(s, bytes) else s.encode('utf-8', 'surrogateescape')).hex()


def _run_batch(lines, timeout_ms):
    """lines: request lines. Returns dict id -> json. Restarts the driver after a hang/crash."""
    out = {}
    pending = list(lines)
    guard = 0
    while pending and guard < 50:
        guard += 1
        p = subprocess.run([build_driver()], input='\n'.join(pending) + '\n', capture_output=True, text=True,
                           env=dict(ENV, CCDRV_TIMEOUT_MS=str(timeout_ms), RUST_LOG='off'))
        got = 0
        for l in p.stdout.split('\n'):
            if not l.startswith('{"id":'):
                continue
            try:
                j = json.loads(l)
            except Exception:
                continue
            out[j['id']] = j; got += 1
        done = set(out)
        newp = [l for l in pending if l.split('\t')[1] not in done]
        if len(newp) == len(pending):
            # first pending request killed the process (abort / stack overflow): record and skip it
            rid = newp[0].split('\t')[1]
            out[rid] = {'id': rid, 'status': 'crash', 'msg': 'driver process died (rc=%s)' % p.returncode}
            newp = newp[1:]
        pending = newp
    return out


def run_requests(lines, timeout_ms=5000, jobs=None):
    jobs = jobs or NCPU
    if len(lines) < 8:
        return _run_batch(lines, timeout_ms)
    chunks = [lines[i::jobs] for i in range(jobs)]
    chunks = [c for c in chunks if c]
    out = {}
    with concurrent.futures.ThreadPoolExecutor(len(chunks)) as ex:
        for r in ex.map(lambda c: _run_batch(c, timeout_ms), chunks):
            out.update(r)
    return out


def compile_many(reqs, timeout_ms=5000):
    """reqs: list of (id, [args], source). Returns dict id -> Compiled."""
    lines = ['C\t%s\t%s\t%s' % (i, _hex('\x1f'.join(a)), _hex(s)) for i, a, s in reqs]
    raw = run_requests(lines, timeout_ms)
    # a time-out on a loaded machine is not a hang: ask again, alone and with six times the budget, before believing it
    late = [l for l, (i, _, _) in zip(lines, reqs) if raw.get(i, {}).get('status') == 'timeout']
    if late and len(late) <= 64:
        raw.update(run_requests(late, timeout_ms * 6))
    return {i: Compiled(raw.get(i, {'id': i, 'status': 'missing'})) for i, _, _ in reqs}


def compile_one(src, args=(), timeout_ms=5000):
    return compile_many([('x', list(args), src)], timeout_ms)['x']


def asm_many(kind, reqs, timeout_ms=5000):
    """kind 'B' (check_branches) or 'O' (optimize). reqs: list of (id, spec_text)."""
    lines = ['%s\t%s\t%s' % (kind, i, _hex(s)) for i, s in reqs]
    return run_requests(lines, timeout_ms)


class Compiled:
    """Structured view of one driver answer."""
    def __init__(self, j):
        self.j = j
        self.status = j.get('status')
        self.err = j.get('err')
        self.msg = j.get('msg') or j.get('display')
        self.loc = j.get('loc')
        self.funcs = {}      # name -> dict(size, inline, bank, interrupt, has_code, locals, lines)
        self.order = []
        self.calltree = {}
        self.inuse = []
        self.vars = []       # dicts
        self.scheme = None
        self.warnings = []
        if self.status == 'ok':
            self._parse(j['raw'])

    def _parse(self, raw):
        cur = None
        for l in raw.split('\n'):
            if l.startswith('\x01'):
                f = l[1:].split('\t')
                k = f[0]
                if k == 'FUNC':
                    cur = dict(name=f[1], size=int(f[2]), inline=f[3] == 'true', bank=int(f[4]), interrupt=f[5] == 'true',
                               has_code=f[6] == 'true', locals=[x for x in f[7].split(',') if x], lines=[])
                    self.funcs[f[1]] = cur; self.order.append(f[1])
                elif k == 'END':
                    cur = None
                elif k == 'CALL':
                    self.calltree[f[1]] = [x for x in f[2].split(',') if x]
                elif k == 'INUSE':
                    self.inuse = [x for x in f[1].split(',') if x]
                elif k == 'VAR':
                    self.vars.append(dict(name=f[1], type=f[2], const=f[3] == 'true', signed=f[4] == 'true', mem=f[5], size=int(f[6]),
                                          alignment=int(f[7]), is_global=f[8] == 'true', reversed=f[9] == 'true', d=f[10]))
                elif k == 'SCHEME':
                    self.scheme = f[1]
            elif cur is not None:
                if l != '':
                    cur['lines'].append(l)

    def text(self, fname):
        return '\n'.join(self.funcs[fname]['lines'])


# --------------------------------------------------------------------------- evidence / findings

def load_known():
    p = os.path.join(VERIF, 'known_findings.json')
    if not os.path.exists(p):
        return []
    return json.load(open(p)).get('findings', [])


class Report:
    """Collects violations, filters known findings, writes evidence, decides the exit code."""
    def __init__(self, pid, tier, level):
        self.pid, self.tier, self.level = pid, tier, level
        self.seed = int(os.environ.get('VERIF_SEED', '0') or 0)
        self.t0 = time.time()
        self.cov = {}
        self.assumptions = []
        self.violations = []     # (key, what, replay dict)
        self.known_hit = []
        self.inconclusive = []
        if not os.environ.get('VERIF_EVIDENCE_DIR'): shutil.rmtree(os.path.join(VERIF, 'replays', pid), ignore_errors=True)
        self.known = [k for k in load_known() if k.get('property') == pid and k.get('status', 'open') == 'open']
        if os.environ.get('VERIF_IGNORE_KNOWN'): self.known = []          # development: write a replay for every violation (lib/mkknown.py reads them)

    def violation(self, key, what, replay, sig=None):
        """A violation is a known finding when its key is listed, or - for findings on emitted code, whose key ends in '#<hash of the
        code>' - when the same input is listed and fails in the same observables (sig: the set of observables that can differ,
        decided by the solver). So a change that alters the code of a known-wrong program without altering HOW it is wrong stays a
        known finding; a change that makes it wrong in another observable is reported."""
        for k in self.known:
            if k['key'] == key:
                if key not in [x[0] for x in self.known_hit]:
                    self.known_hit.append((key, k['what']))
                return False
        if '#' in key and sig:
            base = key.rsplit('#', 1)[0]
            for k in self.known:
                if k.get('sig') and k['key'].rsplit('#', 1)[0] == base and set(sig) <= set(k['sig']) and '...' not in sig:
                    if key not in [x[0] for x in self.known_hit]:
                        self.known_hit.append((key, k['what'] + ' (emitted code changed, same failing observables %s)' % sorted(sig)))
                    return False
        if isinstance(replay, dict) and sig is not None: replay = dict(replay, sig=sorted(sig))
        if key in [v[0] for v in self.violations]:
            return True
        self.violations.append((key, what, replay))
        return True

    def inconc(self, what):
        self.inconclusive.append(what)

    def finish(self):
        evdir = os.environ.get('VERIF_EVIDENCE_DIR') or os.path.join(VERIF, 'evidence')
        os.makedirs(evdir, exist_ok=True)
        rdir = os.path.join(os.path.dirname(evdir), 'replays', self.pid) if os.environ.get('VERIF_EVIDENCE_DIR') else os.path.join(VERIF, 'replays', self.pid)
        out_lines = []
        for key, what in self.known_hit:
            out_lines.append('KNOWN-FINDING: property=%s %s [%s]' % (self.pid, what, key))
        paths = []
        for n, (key, what, replay) in enumerate(self.violations):
            os.makedirs(rdir, exist_ok=True)
            safe = re.sub(r'[^A-Za-z0-9_.-]+', '_', key)[:100] + '_' + hashlib.sha1(key.encode()).hexdigest()[:8]
            p = os.path.join(rdir, safe + '.json')
            json.dump(dict(property=self.pid, key=key, what=what, replay=replay), open(p, 'w'), indent=1)
            paths.append(p)
            out_lines.append('VIOLATION property=%s replay=%s' % (self.pid, p))
            out_lines.append('  ' + what[:600])
        for w in self.inconclusive:
            out_lines.append('INCONCLUSIVE property=%s %s' % (self.pid, w))
        cov = dict(self.cov)
        cov.setdefault('known_findings_hit', [k for k, _ in self.known_hit])
        cov.setdefault('inconclusive', self.inconclusive[:50])
        cov.setdefault('violation_keys', [v[0] for v in self.violations][:50])
        ev = dict(property_id=self.pid, tier=self.tier, seed=self.seed, level=self.level, coverage=cov,
                  assumptions=self.assumptions, wall_s=round(time.time() - self.t0, 2), violations=len(self.violations),
                  repo_hash=repo_hash())
        json.dump(ev, open(os.path.join(evdir, self.pid + '.json'), 'w'), indent=1, default=str)
        print('\n'.join(out_lines))
        if self.violations:
            return 1
        if self.inconclusive:
            return 2
        print('OK property=%s tier=%s wall=%.1fs' % (self.pid, self.tier, time.time() - self.t0))
        return 0

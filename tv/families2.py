"""Core program families G-expr, G-cond, G-ctl, G-call (DESIGN 3.3), built from cast nodes."""
import itertools
from cast import *
from families import V, C, A, B, TYPES, ORDER, mkprog, stable_pick, BOUNDARY, BOUNDARY16, HW_PRE

X, Y = V('X'), V('Y')


def operands8():
    return [('vb', lambda: V('vb')), ('sb', lambda: V('sb')), ('a2', lambda: Index('arr', C(2))), ('aY', lambda: Index('arr', V('Y'))),
            ('aX', lambda: Index('arr', V('X'))), ('X', lambda: V('X')), ('Y', lambda: V('Y')), ('pY', lambda: Index('pp', V('Y'))), ('dp', lambda: Deref('pp'))]


def operands16():
    return [('wb', lambda: V('wb')), ('hb', lambda: V('hb')), ('w1', lambda: Index('warr', C(1))), ('wX', lambda: Index('warr', V('X')))]


def named_consts():
    return [('ks', lambda: V('ks')), ('ku', lambda: V('ku')), ('kw', lambda: V('kw'))]


def consts8(): return [('k%d' % n, (lambda n=n: C(n))) for n in BOUNDARY]
def consts16(): return [('k%d' % n, (lambda n=n: C(n))) for n in (256, 257, 0x7fff, 0x8000)]


def dests():
    return [('va', lambda: V('va')), ('sa', lambda: V('sa')), ('wa', lambda: V('wa')), ('ha', lambda: V('ha')), ('X', lambda: V('X')), ('Y', lambda: V('Y')),
            ('a1', lambda: Index('arr', C(1))), ('aX', lambda: Index('arr', V('X'))), ('aY', lambda: Index('arr', V('Y'))), ('pY', lambda: Index('pp', V('Y'))),
            ('w2', lambda: Index('warr', C(2)))]


def keep(pid, tier, pct):
    return tier == 'thorough' or stable_pick(pid, 100, pct)


def g_expr(tier):
    ops = ['+', '-', '&', '|', '^']
    srcs = operands8() + operands16() + consts8() + consts16()
    for (dn, d), op, (ln, l), (rn, r) in itertools.product(dests(), ops, srcs, srcs):
        if ln.startswith('k') and rn.startswith('k'): continue
        pid = 'expr/bin/%s=%s%s%s' % (dn, ln, op, rn)
        if not keep(pid, tier, 25): continue
        yield mkprog(pid, [A(d(), B(op, l(), r()))])
    # compound assignment
    for (dn, d), op, (rn, r) in itertools.product(dests(), ['+=', '-=', '&=', '|=', '^='], srcs):
        pid = 'expr/cass/%s%s%s' % (dn, op, rn)
        if not keep(pid, tier, 60): continue
        yield mkprog(pid, [A(d(), r(), op)])
    # plain moves (conversions, sign extension)
    for (dn, d), (rn, r) in itertools.product(dests(), srcs):
        yield mkprog('expr/mv/%s=%s' % (dn, rn), [A(d(), r())])
    # named constants (const globals with an initialiser) as operands
    for (dn, d), (kn, k) in itertools.product(dests()[:6], named_consts()):
        yield mkprog('expr/kmv/%s=%s' % (dn, kn), [A(d(), k())])
        for op, (rn, r) in itertools.product(['+', '-', '&', '|'], [('vb', lambda: V('vb')), ('wb', lambda: V('wb')), ('k1', lambda: C(1))]):
            yield mkprog('expr/kbin/%s=%s%s%s' % (dn, kn, op, rn), [A(d(), B(op, k(), r()))])
            yield mkprog('expr/kbin/%s=%s%s%s' % (dn, rn, op, kn), [A(d(), B(op, r(), k()))])
        if (dn, kn) in (('va', 'ku'), ('sa', 'ks'), ('ha', 'kw'), ('X', 'ku'), ('Y', 'ku')):      # same type on both sides only
            for op in ('<', '>=', '=='):
                yield mkprog('expr/kcmp/%s/%s/%s' % (dn, kn, op), [If(B(op, d(), k()), A(V('vc'), C(1)), A(V('vc'), C(2)))])
    # shifts by constants
    for (dn, d), (ln, l), k, op in itertools.product(dests()[:6], [('vb', lambda: V('vb')), ('sb', lambda: V('sb')), ('wb', lambda: V('wb')), ('hb', lambda: V('hb')), ('X', lambda: V('X'))],
                                                     [0, 1, 2, 3, 4, 7, 8, 9, 15], ['<<', '>>']):
        pid = 'expr/sh/%s=%s%s%d' % (dn, ln, op, k)
        if not keep(pid, tier, 70): continue
        yield mkprog(pid, [A(d(), B(op, l(), C(k)))])
    for (dn, d), k, op in itertools.product(dests()[:4], [0, 1, 2, 7, 8, 9], ['<<=', '>>=']):
        yield mkprog('expr/shass/%s%s%d' % (dn, op, k), [A(d(), C(k), op)])
    # unary
    for (dn, d), (ln, l), op in itertools.product(dests()[:6], operands8() + operands16() + consts8()[:4], ['-', '~', '!']):
        yield mkprog('expr/un/%s=%s%s' % (dn, op, ln), [A(d(), Un(op, l()))])
    # ++ / --
    lvs = [('va', lambda: V('va')), ('sa', lambda: V('sa')), ('wa', lambda: V('wa')), ('ha', lambda: V('ha')), ('X', lambda: V('X')), ('Y', lambda: V('Y')),
           ('a1', lambda: Index('arr', C(1))), ('aX', lambda: Index('arr', V('X'))), ('aY', lambda: Index('arr', V('Y'))), ('w2', lambda: Index('warr', C(2))), ('pp', lambda: V('pp'))]
    for (ln, l), op, pre in itertools.product(lvs, ['++', '--'], [True, False]):
        yield mkprog('expr/inc/%s%s%s' % (op if pre else '', ln, '' if pre else op), [ExprS(Inc(op, pre, l()))])
        for dn, d in (('vb', lambda: V('vb')), ('wb', lambda: V('wb')), ('Y', lambda: V('Y')), ('b2', lambda: Index('brr', C(2)))):
            if dn == ln: continue
            yield mkprog('expr/incuse/%s=%s%s%s' % (dn, op if pre else '', ln, '' if pre else op), [A(d(), Inc(op, pre, l()))])
    # multiplication / division by constants
    for (dn, d), (ln, l), k, op in itertools.product(dests()[:4], operands8()[:2] + operands16()[:2], [2, 3, 4, 8, 10], ['*', '/']):
        pid = 'expr/muldiv/%s=%s%s%d' % (dn, ln, op, k)
        if not keep(pid, tier, 50): continue
        yield mkprog(pid, [A(d(), B(op, l(), C(k)))])
    # depth 2: every ordered pair of binary operators, bare (precedence) and parenthesised both ways
    bops = ['+', '-', '&', '|', '^', '<<', '>>', '<', '<=', '>', '>=', '==', '!=', '&&', '||']
    for o1, o2 in itertools.product(bops, bops):
        for dn, d, (a, b, c) in (('va', lambda: V('va'), ('vb', 'vc', 'vd')), ('wa', lambda: V('wa'), ('wb', 'vc', 'wc'))):
            mk = lambda n: (C(1) if False else V(n))
            r3 = C(2) if o2 in ('<<', '>>') else mk(c)
            r2 = C(1) if o1 in ('<<', '>>') else mk(b)
            pid = 'expr/prec/%s=%s%s%s%s%s' % (dn, a, o1, b, o2, c)
            yield mkprog(pid + '/flat', [A(d(), Flat([mk(a), o1, r2, o2, r3]))])
            if keep(pid, tier, 50):
                r3 = C(2) if o2 in ('<<', '>>') else mk(c); r2 = C(1) if o1 in ('<<', '>>') else mk(b)
                yield mkprog(pid + '/L', [A(d(), B(o2, B(o1, mk(a), r2), r3))])
                r3 = C(2) if o2 in ('<<', '>>') else mk(c); r2b = B(o2, mk(b), r3)
                if o1 not in ('<<', '>>'):
                    yield mkprog(pid + '/R', [A(d(), B(o1, mk(a), r2b))])
    # the same precedence pairs inside the initialiser of a local variable (separate operator table in the compiler)
    for o1, o2 in itertools.product(bops, bops):
        r3 = C(2) if o2 in ('<<', '>>') else V('vd'); r2 = C(1) if o1 in ('<<', '>>') else V('vc')
        fi = Func('fi', None, [], Block([A(V('va'), V('l'))], decls=[('u8', 'l', Flat([V('vb'), o1, r2, o2, r3]))]))
        yield mkprog('expr/precinit/va=vb%svc%svd' % (o1, o2), [ExprS(Call('fi', []))], funcs=[fi], extra_globals=['va', 'vb', 'vc', 'vd'])
    # comma, chained assignment
    yield mkprog('expr/comma', [A(V('va'), Comma(Assign(V('vb'), '=', C(3)), B('+', V('vb'), C(1))))])
    yield mkprog('expr/chain', [A(V('va'), Assign(V('vb'), '=', B('+', V('vc'), C(1))))])
    yield mkprog('expr/chain16', [A(V('wa'), Assign(V('va'), '=', V('wb')))])


CMPS = ['<', '<=', '>', '>=', '==', '!=']


def cond_pairs():
    P = []
    def add(n, l, r): P.append((n, l, r))
    for k in BOUNDARY: add('va~%d' % k, lambda: V('va'), lambda k=k: C(k))
    for k in (0, 1, 127, -1, -128): add('sa~%d' % k, lambda: V('sa'), lambda k=k: C(k))
    for k in (0, 1, 255, 256, 257, 0x7fff, 0x8000, 0xffff): add('wa~%d' % k, lambda: V('wa'), lambda k=k: C(k))
    for k in (0, 1, 255, 256, -1, -256, 0x7fff): add('ha~%d' % k, lambda: V('ha'), lambda k=k: C(k))
    add('va~vb', lambda: V('va'), lambda: V('vb')); add('sa~sb', lambda: V('sa'), lambda: V('sb')); add('wa~wb', lambda: V('wa'), lambda: V('wb'))
    add('ha~hb', lambda: V('ha'), lambda: V('hb')); add('X~va', lambda: V('X'), lambda: V('va')); add('Y~3', lambda: V('Y'), lambda: C(3)); add('X~Y', lambda: V('X'), lambda: V('Y'))
    add('va~aX', lambda: V('va'), lambda: Index('arr', V('X'))); add('aY~vb', lambda: Index('arr', V('Y')), lambda: V('vb')); add('pY~va', lambda: Index('pp', V('Y')), lambda: V('va'))
    add('wa~va', lambda: V('wa'), lambda: V('va')); add('va~wa', lambda: V('va'), lambda: V('wa')); add('wX~wb', lambda: Index('warr', V('X')), lambda: V('wb'))
    add('va+1~vb', lambda: B('+', V('va'), C(1)), lambda: V('vb')); add('va&7~2', lambda: B('&', V('va'), C(7)), lambda: C(2))
    return P


def g_cond(tier):
    for (n, l, r), op in itertools.product(cond_pairs(), CMPS):
        yield mkprog('cond/if/%s/%s' % (n, op), [If(B(op, l(), r()), A(V('vc'), C(1)), A(V('vc'), C(2)))])
        if keep('cond/set/%s/%s' % (n, op), tier, 50):
            yield mkprog('cond/set/%s/%s' % (n, op), [A(V('vc'), B(op, l(), r()))])
        if keep('cond/ifnoelse/%s/%s' % (n, op), tier, 30):
            yield mkprog('cond/ifnoelse/%s/%s' % (n, op), [If(B(op, l(), r()), A(V('vc'), C(1)))])
        if keep('cond/tern/%s/%s' % (n, op), tier, 30):
            yield mkprog('cond/tern/%s/%s' % (n, op), [A(V('vc'), Tern(B(op, l(), r()), V('vd'), C(9)))])
        if keep('cond/while/%s/%s' % (n, op), tier, 20):
            # loop whose condition is the comparison, body forces exit after at most 3 rounds
            yield mkprog('cond/while/%s/%s' % (n, op), [A(V('vd'), C(3)), While(B('&&', B(op, l(), r()), V('vd')), Block([ExprS(Inc('--', False, V('vd'))), ExprS(Inc('++', False, V('vc')))]))])
    # truthiness
    for n, e in (('va', lambda: V('va')), ('wa', lambda: V('wa')), ('sa', lambda: V('sa')), ('X', lambda: V('X')), ('aX', lambda: Index('arr', V('X'))), ('va&4', lambda: B('&', V('va'), C(4))),
                 ('!va', lambda: Un('!', V('va'))), ('!wa', lambda: Un('!', V('wa'))), ('va-vb', lambda: B('-', V('va'), V('vb')))):
        yield mkprog('cond/truth/' + n, [If(e(), A(V('vc'), C(1)), A(V('vc'), C(2)))])
    # logical chains with side effects (short circuit)
    atoms = [('a', lambda: B('==', V('va'), C(1))), ('b', lambda: V('vb')), ('c', lambda: B('<', V('vc'), C(5))), ('i', lambda: Inc('++', False, V('vd'))), ('w', lambda: B('!=', V('wa'), C(256))),
             ('n', lambda: Un('!', V('va')))]
    for (n1, a1), o1, (n2, a2) in itertools.product(atoms, ['&&', '||'], atoms):
        yield mkprog('cond/log2/%s%s%s' % (n1, o1, n2), [If(B(o1, a1(), a2()), A(V('sa'), C(1)), A(V('sa'), C(2)))])
        for o2, (n3, a3) in itertools.product(['&&', '||'], atoms):
            pid = 'cond/log3/%s%s%s%s%s' % (n1, o1, n2, o2, n3)
            if not keep(pid, tier, 25): continue
            yield mkprog(pid + '/flat', [If(Flat([a1(), o1, a2(), o2, a3()]), A(V('sa'), C(1)), A(V('sa'), C(2)))])
            yield mkprog(pid + '/R', [If(B(o1, a1(), B(o2, a2(), a3())), A(V('sa'), C(1)), A(V('sa'), C(2)))])
    yield mkprog('cond/notpar', [If(Un('!', B('&&', V('va'), V('vb'))), A(V('vc'), C(1)), A(V('vc'), C(2)))])
    yield mkprog('cond/setlog', [A(V('vc'), B('&&', V('va'), V('vb')))])
    yield mkprog('cond/setlor', [A(V('vc'), B('||', V('va'), B('==', V('vb'), C(2))))])


def g_ctl(tier):
    inc = lambda n: ExprS(Inc('++', False, V(n)))
    dec = lambda n: ExprS(Inc('--', False, V(n)))
    m3 = lambda n: A(V(n), B('&', V(n), C(3)))
    yield mkprog('ctl/while', [m3('va'), While(V('va'), Block([dec('va'), inc('vb')]))])
    yield mkprog('ctl/while_ne', [m3('va'), While(B('!=', V('va'), C(0)), Block([dec('va'), A(V('vb'), C(2), '+=')]))])
    yield mkprog('ctl/do', [m3('va'), DoWhile(Block([inc('vb'), dec('va')]), B('<', V('va'), C(4)))])
    yield mkprog('ctl/do_x', [A(X, C(0)), DoWhile(Block([A(Index('arr', X), X), inc('X')]), B('!=', X, C(4)))])
    yield mkprog('ctl/for_up', [For(Assign(V('va'), '=', C(0)), B('<', V('va'), C(3)), Inc('++', False, V('va')), A(V('vb'), V('va'), '+='))])
    yield mkprog('ctl/for_down', [For(Assign(X, '=', C(3)), B('!=', X, C(0)), Inc('--', False, X), A(V('vb'), Index('arr', X), '+='))])
    yield mkprog('ctl/for_y', [For(Assign(Y, '=', C(0)), B('<', Y, C(4)), Inc('++', False, Y), A(Index('arr', Y), Index('brr', Y)))])
    yield mkprog('ctl/for_noinit', [m3('va'), For(None, B('<', V('va'), C(3)), Inc('++', False, V('va')), inc('vb'))])
    yield mkprog('ctl/for_nocond', [A(V('va'), C(0)), For(None, None, Inc('++', False, V('va')), If(B('==', V('va'), C(3)), Break()))])
    yield mkprog('ctl/for16', [For(Assign(V('wa'), '=', C(254)), B('<', V('wa'), C(258)), Inc('++', False, V('wa')), inc('vb'))])
    yield mkprog('ctl/break', [m3('va'), A(V('vb'), C(0)), While(C(1), Block([If(B('==', V('vb'), V('va')), Break()), inc('vb')]))])
    yield mkprog('ctl/continue', [For(Assign(V('va'), '=', C(0)), B('<', V('va'), C(4)), Inc('++', False, V('va')), Block([If(B('&', V('va'), C(1)), Continue()), inc('vb')]))])
    yield mkprog('ctl/continue_while', [m3('va'), While(V('va'), Block([dec('va'), If(B('==', V('va'), C(1)), Continue()), inc('vb')]))])
    yield mkprog('ctl/continue_do', [m3('va'), DoWhile(Block([inc('vc'), If(B('==', V('vc'), C(2)), Continue()), inc('vb')]), Inc('--', False, V('va')))])
    yield mkprog('ctl/nested', [For(Assign(X, '=', C(0)), B('<', X, C(2)), Inc('++', False, X),
                                    For(Assign(Y, '=', C(0)), B('<', Y, C(2)), Inc('++', False, Y), A(V('va'), B('+', X, Y), '+=')))])
    yield mkprog('ctl/nested_break', [For(Assign(V('va'), '=', C(0)), B('<', V('va'), C(3)), Inc('++', False, V('va')),
                                          Block([A(V('vb'), C(0)), While(C(1), Block([inc('vb'), inc('vc'), If(B('>', V('vb'), V('va')), Break())]))]))])
    for sel, sn in ((lambda: V('va'), 'va'), (lambda: X, 'X'), (lambda: B('&', V('va'), C(3)), 'va&3'), (lambda: Index('arr', Y), 'aY')):
        yield mkprog('ctl/switch/%s/brk' % sn, [Switch(sel(), [(0, [A(V('vb'), C(10)), Break()]), (1, [A(V('vb'), C(11)), Break()]), (None, [A(V('vb'), C(12))])])])
        yield mkprog('ctl/switch/%s/fall' % sn, [Switch(sel(), [(1, [inc('vb')]), (2, [inc('vb')]), (3, [inc('vb'), Break()]), (None, [A(V('vb'), C(0))])])])
        yield mkprog('ctl/switch/%s/nodef' % sn, [Switch(sel(), [(5, [A(V('vb'), C(1)), Break()]), (200, [A(V('vb'), C(2)), Break()])])])
        yield mkprog('ctl/switch/%s/defmid' % sn, [Switch(sel(), [(1, [A(V('vb'), C(1)), Break()]), (None, [A(V('vb'), C(9))])]), inc('vc')])
    yield mkprog('ctl/switch_in_loop', [For(Assign(V('va'), '=', C(0)), B('<', V('va'), C(3)), Inc('++', False, V('va')),
                                            Switch(V('va'), [(0, [inc('vb'), Break()]), (1, [A(V('vb'), C(2), '+='), Break()]), (None, [A(V('vc'), C(7))])]))])
    yield mkprog('ctl/goto_fwd', [If(V('va'), Goto('skip')), A(V('vb'), C(1)), Label('skip', A(V('vc'), C(2)))])
    yield mkprog('ctl/goto_back', [m3('va'), Label('again', inc('vb')), If(V('va'), Block([dec('va'), Goto('again')]))])
    yield mkprog('ctl/if_chain', [If(B('==', V('va'), C(1)), A(V('vb'), C(1)), If(B('==', V('va'), C(2)), A(V('vb'), C(2)), A(V('vb'), C(3))))])
    yield mkprog('ctl/if_nested', [If(V('va'), If(V('vb'), A(V('vc'), C(1)), A(V('vc'), C(2))))])
    yield mkprog('ctl/dangling', [If(V('va'), Block([If(V('vb'), A(V('vc'), C(1)))]), A(V('vc'), C(2)))])


def g_call(tier, inline_sets=False):
    """call families; each entry also lists which callees are eligible for 'inline' (C14)"""
    P = []
    def add(pid, funcs, stmts, extra=()):
        p = mkprog(pid, stmts, funcs=funcs, extra_globals=extra)
        P.append(p)
    F = Func
    ret = lambda e: Return(e)
    add('call/inc', [F('f', 'u8', [('u8', 'x')], Block([ret(B('+', V('x'), C(1)))]))], [A(V('vb'), Call('f', [V('va')]))])
    add('call/two', [F('f', 'u8', [('u8', 'x'), ('u8', 'y')], Block([ret(B('-', V('x'), V('y')))]))], [A(V('vc'), Call('f', [V('va'), V('vb')]))])
    add('call/short', [F('f', 'u16', [('u16', 'x')], Block([ret(B('+', V('x'), C(256)))]))], [A(V('wa'), Call('f', [V('wb')]))])
    add('call/mixed', [F('f', 'u16', [('u8', 'x'), ('u16', 'y')], Block([ret(B('+', V('y'), V('x')))]))], [A(V('wa'), Call('f', [V('va'), V('wb')]))])
    add('call/void', [F('f', None, [], Block([ExprS(Inc('++', False, V('vc')))]))], [ExprS(Call('f', [])), ExprS(Call('f', []))], extra=['vc'])
    add('call/early', [F('f', 'u8', [('u8', 'x')], Block([If(B('<', V('x'), C(10)), ret(C(1))), If(B('<', V('x'), C(100)), ret(C(2))), ret(C(3))]))], [A(V('vb'), Call('f', [V('va')]))])
    add('call/loop', [F('f', 'u8', [('u8', 'n')], Block([A(V('n'), B('&', V('n'), C(3))), While(V('n'), Block([ExprS(Inc('--', False, V('n'))), ExprS(Inc('++', False, V('r')))])), ret(V('r'))],
                        decls=[('u8', 'r', C(0))]))], [A(V('vb'), Call('f', [V('va')]))])
    add('call/ret_in_loop', [F('f', 'u8', [('u8', 'n')], Block([For(Assign(V('i'), '=', C(0)), B('<', V('i'), C(4)), Inc('++', False, V('i')), If(B('==', V('i'), V('n')), ret(B('+', V('i'), C(10))))), ret(C(0))],
                               decls=[('u8', 'i', C(0))]))], [A(V('vb'), Call('f', [V('va')]))])
    add('call/in_expr', [F('f', 'u8', [('u8', 'x')], Block([ret(B('<<', V('x'), C(1)))]))], [A(V('vb'), B('+', Call('f', [V('va')]), V('vc')))])
    add('call/in_expr2', [F('f', 'u8', [('u8', 'x')], Block([ret(B('&', V('x'), C(15)))]))], [A(V('vb'), B('+', V('vc'), Call('f', [V('va')])))])
    add('call/in_cond', [F('f', 'u8', [('u8', 'x')], Block([ret(B('&', V('x'), C(1)))]))], [If(Call('f', [V('va')]), A(V('vb'), C(1)), A(V('vb'), C(2)))])
    add('call/in_cmp', [F('f', 'u8', [('u8', 'x')], Block([ret(B('+', V('x'), C(3)))]))], [If(B('<', Call('f', [V('va')]), V('vb')), A(V('vc'), C(1)), A(V('vc'), C(2)))])
    add('call/twice', [F('f', 'u8', [('u8', 'x')], Block([ret(B('+', V('x'), C(1)))]))], [A(V('vb'), Call('f', [V('va')])), A(V('vc'), Call('f', [V('vb')]))])
    add('call/nested_arg', [F('f', 'u8', [('u8', 'x')], Block([ret(B('+', V('x'), C(1)))]))], [A(V('vb'), Call('f', [Call('f', [V('va')])]))])
    add('call/chain', [F('g', 'u8', [('u8', 'y')], Block([ret(B('^', V('y'), C(255)))])), F('f', 'u8', [('u8', 'x')], Block([ret(B('+', Call('g', [V('x')]), C(1)))]))],
        [A(V('vb'), Call('f', [V('va')]))])
    add('call/chain3', [F('h', 'u8', [('u8', 'z')], Block([ret(B('|', V('z'), C(1)))])), F('g', 'u8', [('u8', 'y')], Block([ret(Call('h', [B('+', V('y'), C(2))]))])),
                        F('f', 'u8', [('u8', 'x')], Block([ret(Call('g', [V('x')]))]))], [A(V('vb'), Call('f', [V('va')]))])
    add('call/shadow', [F('f', 'u8', [('u8', 'va')], Block([A(V('va'), C(5), '+='), ret(V('va'))]))], [A(V('vb'), Call('f', [V('vc')]))], extra=['va'])
    add('call/local_shadow', [F('f', 'u8', [], Block([A(V('vb'), C(7)), ret(B('+', V('vb'), C(1)))], decls=[('u8', 'vb', C(1))]))], [A(V('va'), Call('f', []))], extra=['vb'])
    add('call/globals', [F('f', None, [], Block([A(V('vb'), B('+', V('va'), C(1))), A(V('X'), V('vb'))]))], [ExprS(Call('f', [])), A(V('vc'), V('X'))])
    add('call/xy_args', [F('f', 'u8', [('u8', 'p'), ('u8', 'q')], Block([ret(B('+', V('p'), V('q')))]))], [A(V('va'), Call('f', [V('X'), V('Y')]))])
    add('call/arr_arg', [F('f', 'u8', [('u8', 'p')], Block([ret(Index('arr', V('Y')))]))], [A(V('va'), Call('f', [Index('arr', V('X'))]))])
    add('call/signed_ret', [F('f', 's8', [('s8', 'x')], Block([ret(Un('-', V('x')))]))], [A(V('ha'), Call('f', [V('sa')]))])
    add('call/in_loop', [F('f', 'u8', [('u8', 'x')], Block([ret(B('+', V('x'), V('x')))]))],
        [For(Assign(V('va'), '=', C(0)), B('<', V('va'), C(3)), Inc('++', False, V('va')), A(V('vb'), Call('f', [V('va')]), '+='))])
    add('call/two_sites_cond', [F('f', 'u8', [('u8', 'x')], Block([If(V('x'), ret(C(1))), ret(C(0))]))], [If(V('va'), A(V('vb'), Call('f', [V('vc')])), A(V('vb'), Call('f', [V('vd')])))])
    add('call/store_y', [F('f', None, [('u8', 'v')], Block([A(Index('arr', V('Y')), V('v'))]))], [A(V('Y'), C(1)), ExprS(Call('f', [V('va')])), ExprS(Inc('++', False, V('Y'))), ExprS(Call('f', [V('vb')]))])
    return P


def all_core(tier):
    yield from g_expr(tier)
    yield from g_cond(tier)
    yield from g_ctl(tier)
    yield from g_call(tier)

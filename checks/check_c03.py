"""C03 Conditional branches always reach; long-branch repair preserves control flow.
E-MIR: AssemblyCode::check_branches is executed from its MIR on enumerated layouts with SYMBOLIC byte sizes of every filler
(z3 decides all distances); post-conditions: true displacement in -128..127, same control flow for all N/Z/C, sizes of created
instructions, labels well-formed. Each path is cross-checked against the real function through the driver.
E-TV: programs with far branches: displacements with real encodings + equivalence with the reference semantics."""
import itertools, time, collections, copy
import z3
import common, runner
from base import *
from cast import *
from families import V, C, A, B, mkprog
from base import S, ret, opt

BR = ['BEQ', 'BNE', 'BCC', 'BCS', 'BMI', 'BPL']


# ----------------------------------------------------------------------------- container / string models (concrete shape)
class VecC:
    def __init__(self, items): self.items = items

def cstr(v):
    v = S(v)
    return ''.join(v.parts) if isinstance(v, Str) and all(isinstance(x, str) for x in v.parts) else None

def conc(v):
    v = z3.simplify(v)
    if not z3.is_bv_value(v): raise Unsupported('symbolic index %s' % v)
    return v.as_long()

def m_deref_vec(i, p, fr, c, a, d, r): return ret(p, fr, d, r, a[0])
def m_iter(i, p, fr, c, a, d, r): return ret(p, fr, d, r, Opaque('sliceiter', [S(a[0]), 0]))
def m_iter_next(i, p, fr, c, a, d, r):
    it = S(a[0]); vec, k = it.payload
    if k < len(vec.items): it.payload[1] += 1; return ret(p, fr, d, r, opt(Ref(vec.items[k])))
    return ret(p, fr, d, r, opt(None))
def m_skip(i, p, fr, c, a, d, r):
    it = S(a[0]); vec, k = it.payload
    return ret(p, fr, d, r, Opaque('sliceiter', [vec, k + conc(a[1])]))
def m_index(i, p, fr, c, a, d, r):
    vec, k = S(a[0]), conc(a[1])
    if k >= len(vec.items): raise Panic('index out of bounds')
    return ret(p, fr, d, r, Ref(vec.items[k]))
def m_get(i, p, fr, c, a, d, r):
    vec, k = S(a[0]), conc(a[1])
    return ret(p, fr, d, r, opt(Ref(vec.items[k])) if k < len(vec.items) else opt(None))
def m_split_off(i, p, fr, c, a, d, r):
    vec, k = S(a[0]), conc(a[1])
    if k > len(vec.items): raise Panic('split_off out of bounds')
    tail = VecC(vec.items[k:]); vec.items = vec.items[:k]; return ret(p, fr, d, r, tail)
def m_truncate(i, p, fr, c, a, d, r):
    vec, k = S(a[0]), conc(a[1]); vec.items = vec.items[:k]; return ret(p, fr, d, r, Opaque('unit'))
def m_push(i, p, fr, c, a, d, r): S(a[0]).items.append(Cell(a[1])); return ret(p, fr, d, r, Opaque('unit'))
def m_append(i, p, fr, c, a, d, r):
    v, o = S(a[0]), S(a[1]); v.items.extend(o.items); o.items = []; return ret(p, fr, d, r, Opaque('unit'))
def m_str_eq2(i, p, fr, c, a, d, r): return ret(p, fr, d, r, z3.BoolVal(cstr(a[0]) == cstr(a[1])))
def m_clone(i, p, fr, c, a, d, r): return ret(p, fr, d, r, S(a[0]))
def m_addassign(i, p, fr, c, a, d, r):
    cell = a[0].cell; cell.v = cell.v + S(a[1]); return ret(p, fr, d, r, Opaque('unit'))
def m_len(i, p, fr, c, a, d, r): return ret(p, fr, d, r, z3.BitVecVal(len(S(a[0]).items), 64))
def m_isnone(i, p, fr, c, a, d, r): return ret(p, fr, d, r, z3.BoolVal(S(a[0]).discr == 0))
def decode_tpl(tpl, vals):
    out, k, vi = '', 0, 0
    while k < len(tpl):
        b = tpl[k]; k += 1
        if b == 0: break
        if b < 0x80: out += tpl[k:k + b].decode(); k += b
        elif b == 0xc0:
            v = vals[vi]; vi += 1
            out += str(z3.simplify(v).as_long()) if z3.is_expr(v) else (cstr(v) or '?')
        else: raise Unsupported('format template byte %x' % b)
    return out
def m_format(i, p, fr, c, a, d, r):
    tpl, vals = a[0].payload
    return ret(p, fr, d, r, Str([decode_tpl(tpl, vals)]))

MODELS = dict(LIB)
MODELS.update({
    r'<Vec<AsmLine> as Deref>::deref$': m_deref_vec, r'impl \[AsmLine\]>::iter$': m_iter, r'Iter<.*AsmLine> as Iterator>::next$': m_iter_next,
    r'Iter<.*AsmLine> as Iterator>::skip$': m_skip, r'Skip<.*Iter<.*AsmLine>> as Iterator>::next$': m_iter_next,
    r'<Vec<AsmLine> as Index<usize>>::index$': m_index, r'impl \[AsmLine\]>::get::<usize>$': m_get,
    r'Vec::<AsmLine>::split_off$': m_split_off, r'Vec::<AsmLine>::truncate$': m_truncate, r'Vec::<AsmLine>::push$': m_push, r'Vec::<AsmLine>::len$': m_len,
    r'Vec::<AsmLine>::append$': m_append, r'<std::string::String as PartialEq>::eq$': m_str_eq2, r'String as Clone>::clone$': m_clone,
    r'<u32 as AddAssign<&u32>>::add_assign$': m_addassign, r'Option::<&AsmLine>::is_none$': m_isnone, r'^std::fmt::format$': m_format,
})


def inst(mn, op, nb):
    a = Adt('AsmInstruction', None); F = STRUCTS['AsmInstruction']
    vals = {'mnemonic': Adt('AsmMnemonic', ENUMS['AsmMnemonic'].index(mn)), 'dasm_operand': Str([op]), 'cycles': z3.BitVecVal(2, 32),
            'cycles_alt': Adt('Option', 0), 'nb_bytes': nb if z3.is_expr(nb) else z3.BitVecVal(nb, 32), 'protected': z3.BoolVal(False)}
    for k, f in enumerate(F): a.fields[('', k)] = Cell(vals[f])
    l = Adt('AsmLine', ENUMS['AsmLine'].index('Instruction')); l.fields[('Instruction', 0)] = Cell(a); return l
def label(s):
    l = Adt('AsmLine', ENUMS['AsmLine'].index('Label')); l.fields[('Label', 0)] = Cell(Str([s])); return l
def inline(name, sz):
    l = Adt('AsmLine', ENUMS['AsmLine'].index('Inline')); l.fields[('Inline', 0)] = Cell(Str([name])); l.fields[('Inline', 1)] = Cell(sz); return l
def simple(kind):
    return Adt('AsmLine', ENUMS['AsmLine'].index(kind))


def decode(vec):
    """final Vec<AsmLine> -> list of ('B', mn, label, nb) | ('J', label, nb) | ('L', name) | ('F', name, size term) | ('X',)"""
    out = []
    for c in vec.items:
        l = c.v; kind = ENUMS['AsmLine'][l.discr]
        if kind == 'Instruction':
            ins = l.fields[('Instruction', 0)].v
            mn = ENUMS['AsmMnemonic'][ins.fields[('', 0)].v.discr]; op = cstr(ins.fields[('', 1)].v); nb = ins.fields[('', 4)].v
            out.append(('J', op, nb) if mn == 'JMP' else ('B', mn, op, nb) if mn in BR else ('F', '%s %s' % (mn, op), nb))
        elif kind == 'Label': out.append(('L', cstr(l.fields[('Label', 0)].v)))
        elif kind == 'Inline': out.append(('F', cstr(l.fields[('Inline', 0)].v), l.fields[('Inline', 1)].v))
        else: out.append(('X',))
    return out


def true_size(item):
    if item[0] == 'B': return z3.BitVecVal(2, 32)
    if item[0] == 'J': return z3.BitVecVal(3, 32)
    if item[0] == 'F': return item[2]
    return z3.BitVecVal(0, 32)


def displacement(lines, k):
    """signed displacement term (as 32-bit) of the branch at index k with real encodings"""
    tgt = [i for i, x in enumerate(lines) if x[0] == 'L' and x[1] == lines[k][2]]
    if len(tgt) != 1: return None
    t = tgt[0]
    if t > k:
        return sum((true_size(x) for x in lines[k + 1:t]), z3.BitVecVal(0, 32))
    return -sum((true_size(x) for x in lines[t:k + 1]), z3.BitVecVal(0, 32))


def flow(lines, flags, start=0, limit=600, nf=14):
    """control-flow trace for fixed flags: the first nf fillers executed, then 'end' if the end of the list is reached"""
    N, Z, Cf = flags
    taken = {'BEQ': Z, 'BNE': not Z, 'BCC': not Cf, 'BCS': Cf, 'BMI': N, 'BPL': not N}
    pc, tr = start, []
    for _ in range(limit):
        if len(tr) >= nf: return tr
        if pc >= len(lines): return tr + ['end']
        x = lines[pc]
        if x[0] == 'F': tr.append(x[1]); pc += 1
        elif x[0] == 'B' and taken[x[1]]: pc = [i for i, y in enumerate(lines) if y[0] == 'L' and y[1] == x[2]][0]
        elif x[0] == 'J': pc = [i for i, y in enumerate(lines) if y[0] == 'L' and y[1] == x[1]][0]
        else: pc += 1
    return tr + ['spin']


def layouts(tier):
    """(title, builder) ; builder() -> (lines as spec tuples). spec: ('B', mn, lab) ('L', lab) ('F', name) ('X', kind)"""
    L = []
    for mn in BR:
        L.append(('fwd/' + mn, [('B', mn, 'L'), ('F', 'f1'), ('L', 'L')]))
        L.append(('bwd/' + mn, [('L', 'L'), ('F', 'f1'), ('B', mn, 'L')]))
        L.append(('fwd-then-label/' + mn, [('B', mn, 'L'), ('L', 'M'), ('F', 'f1'), ('L', 'L')]))
        L.append(('fwd-dummy/' + mn, [('B', mn, 'L'), ('X', 'Dummy'), ('F', 'f1'), ('X', 'Comment'), ('L', 'L'), ('F', 'f2')]))
        L.append(('bwd-tail/' + mn, [('F', 'f0'), ('L', 'L'), ('F', 'f1'), ('B', mn, 'L'), ('L', 'E')]))
    for first in ('BCC', 'BMI'):
        L.append(('pair-fwd/' + first, [(('B', first, 'L')), ('B', 'BEQ', 'L'), ('F', 'f1'), ('L', 'L')]))
        L.append(('pair-bwd/' + first, [('L', 'L'), ('F', 'f1'), ('B', first, 'L'), ('B', 'BEQ', 'L')]))
        L.append(('pair-other-label/' + first, [('B', first, 'L'), ('B', 'BEQ', 'M'), ('F', 'f1'), ('L', 'L'), ('F', 'f2'), ('L', 'M')]))
    for first in ('BCC', 'BMI'):
        for b in BR:
            L.append(('pair-then-branch/%s/%s' % (first, b), [('B', first, 'L'), ('B', 'BEQ', 'L'), ('F', 'f1'), ('L', 'L'), ('B', b, 'M'), ('F', 'f2'), ('F', 'f3'), ('L', 'M')]))
            L.append(('branch-then-pair/%s/%s' % (b, first), [('B', b, 'M'), ('F', 'f1'), ('L', 'M'), ('B', first, 'L'), ('B', 'BEQ', 'L'), ('F', 'f2'), ('L', 'L'), ('F', 'f3')]))
        L.append(('two-pairs/%s' % first, [('B', first, 'L'), ('B', 'BEQ', 'L'), ('F', 'f1'), ('L', 'L'), ('B', 'BCC' if first == 'BMI' else 'BMI', 'M'), ('B', 'BEQ', 'M'), ('F', 'f2'), ('L', 'M')]))
    pairs = list(itertools.product(BR, BR)) if tier == 'thorough' else [(a, b) for a, b in itertools.product(BR, BR) if (BR.index(a) + 2 * BR.index(b)) % 3 == 0]
    for a, b in pairs:
        L.append(('two-nested/%s/%s' % (a, b), [('B', a, 'L'), ('F', 'f1'), ('B', b, 'M'), ('F', 'f2'), ('L', 'M'), ('L', 'L')]))
        L.append(('two-crossing/%s/%s' % (a, b), [('B', a, 'L'), ('F', 'f1'), ('B', b, 'M'), ('F', 'f2'), ('L', 'L'), ('F', 'f3'), ('L', 'M')]))
        L.append(('two-mixed/%s/%s' % (a, b), [('L', 'L'), ('F', 'f1'), ('B', a, 'M'), ('F', 'f2'), ('B', b, 'L'), ('F', 'f3'), ('L', 'M')]))
        L.append(('two-seq/%s/%s' % (a, b), [('B', a, 'L'), ('F', 'f1'), ('L', 'L'), ('B', b, 'M'), ('F', 'f2'), ('L', 'M')]))
    for a, b, c in ([('BNE', 'BCC', 'BMI'), ('BEQ', 'BPL', 'BCS')] if tier == 'quick' else list(itertools.product(BR[:4], BR[2:], BR[::2]))):
        L.append(('three/%s/%s/%s' % (a, b, c), [('B', a, 'L'), ('F', 'f1'), ('B', b, 'M'), ('F', 'f2'), ('B', c, 'K'), ('F', 'f3'), ('L', 'K'), ('L', 'M'), ('L', 'L')]))
        L.append(('three-x/%s/%s/%s' % (a, b, c), [('L', 'K'), ('B', a, 'L'), ('F', 'f1'), ('B', b, 'M'), ('F', 'f2'), ('L', 'L'), ('B', c, 'K'), ('F', 'f3'), ('L', 'M')]))
    return L


def build(spec):
    syms, lines = [], []
    for it in spec:
        if it[0] == 'B': lines.append(inst(it[1], it[2], 2))
        elif it[0] == 'L': lines.append(label(it[1]))
        elif it[0] == 'F':
            s = z3.BitVec(it[1], 32); syms.append(s); lines.append(inline(it[1], s))
        else: lines.append(simple(it[1]))
    return lines, syms


def spec_text(spec, vals):
    out = []
    for it in spec:
        if it[0] == 'B': out.append('I %s 2 0 %s' % (it[1], it[2]))
        elif it[0] == 'L': out.append('L ' + it[1])
        elif it[0] == 'F': out.append('N %d %s' % (vals[it[1]], it[1]))
        elif it[1] == 'Dummy': out.append('D')
        else: out.append('M c')
    return '\n'.join(out)


def final_text(lines):
    out = []
    for x in lines:
        if x[0] == 'B': out.append('\t%s %s' % (x[1], x[2]))
        elif x[0] == 'J': out.append('\tJMP ' + x[1])
        elif x[0] == 'L': out.append(x[1])
        elif x[0] == 'F': out.append('\t' + x[1])
    return out


_orig_step = Interp.step_block
def _step_block(self, p):
    fr = p.frames[-1]
    if len(p.frames) == 1 and fr.body.blocks[fr.bb][-1] == 'return;':
        code = S(fr.env['_1'].v)
        if isinstance(code, Adt) and ('', 0) in code.fields and isinstance(code.fields[('', 0)].v, VecC): p.final_vec = code.fields[('', 0)].v
    return _orig_step(self, p)
Interp.step_block = _step_block


def check_layouts(rep, mir, tier, st, only=None, keyprefix='check_branches'):
    """only: restrict the reported obligation kinds (C13 reuses the run for 'labels', 'disp', 'panic')"""
    fn = [n for n in mir.index if n.endswith('>::check_branches') and 'assemble.rs' in n][0]
    st['functions'] = [fn]
    drv_reqs, drv_meta = [], {}
    for title, spec in layouts(tier):
        ctx = Ctx(mir); it = Interp(ctx, inline=[], models=MODELS); it.assume_some = False
        it.allow_uninterpreted = [r'^log::', r'max_level', r'fmt::rt::Argument', r'^Arguments::']
        lines, syms = build(spec)
        for s_ in syms: ctx.constraints.append(z3.ULE(s_, 255))
        code = Adt('AssemblyCode', None); vec = VecC([Cell(l) for l in lines]); code.fields[('', 0)] = Cell(vec)
        t0 = time.time()
        try:
            res = it.run(fn, [Ref(Cell(code))], max_steps=6000, budget_s=30 if tier == 'quick' else 120)
        except Unsupported as e:
            rep.inconc('layout %s: %s' % (title, e)); continue
        st['layouts'] += 1; st['paths'] += len(res); st['queries'] += ctx.nq
        orig = [('B', s[1], s[2], None) if s[0] == 'B' else ('L', s[1]) if s[0] == 'L' else ('F', s[1], None) if s[0] == 'F' else ('X',) for s in spec]
        sol = z3.Solver(); sol.add(*ctx.constraints)
        def model(conds):
            st['queries'] += 1
            sol.push(); sol.add(*conds); r = sol.check(); m = sol.model() if r == z3.sat else None; sol.pop(); return m
        for r in res:
            kind, p = r[0], r[1]
            if kind == 'boundhit':
                rep.inconc('layout %s: unrolling bound reached on a feasible path' % title); continue
            m0 = model(p.pc)
            if m0 is None: continue
            vals = {str(s_): m0.eval(s_, model_completion=True).as_long() for s_ in syms}
            if kind == 'panic':
                st['obligations'] += 1
                rid = 'P:%s:%d' % (title, len(drv_reqs))
                drv_reqs.append((rid, spec_text(spec, vals))); drv_meta[rid] = ('panic', title, spec, vals, None, str(r[2]))
                continue
            fin = decode(p.final_vec)
            # (a) displacement of every conditional branch with real encodings
            for k, x in enumerate(fin):
                if x[0] != 'B': continue
                st['obligations'] += 1
                d = displacement(fin, k)
                if d is None:
                    rep.violation('%s.labels.%s' % (keyprefix, title), 'layout %s: label %s not defined exactly once after repair' % (title, x[2]), dict(kind='mir-branch', layout=spec)); continue
                m = model(p.pc + [z3.Or(d > 127, d < -128)])
                if m is None: st['discharged'] += 1; continue
                v2 = {str(s_): m.eval(s_, model_completion=True).as_long() for s_ in syms}
                rid = 'D:%s:%d' % (title, len(drv_reqs))
                drv_reqs.append((rid, spec_text(spec, v2))); drv_meta[rid] = ('disp', title, spec, v2, (x[1], x[2]), None)
            # (b) control flow for all N/Z/C, (c) sizes of created instructions, (d) labels
            st['obligations'] += 1
            okflow = all(flow(orig, f) == flow(fin, f) for f in itertools.product((False, True), repeat=3))
            sizes_ok = all(z3.is_true(z3.simplify(x[-1] == true_size(x))) for x in fin if x[0] in ('B', 'J'))
            labs = [x[1] for x in fin if x[0] == 'L']
            labs_ok = len(labs) == len(set(labs)) and all((x[2] if x[0] == 'B' else x[1]) in labs for x in fin if x[0] in ('B', 'J'))
            if okflow and sizes_ok and labs_ok: st['discharged'] += 1
            else:
                rid = 'F:%s:%d' % (title, len(drv_reqs))
                drv_reqs.append((rid, spec_text(spec, vals))); drv_meta[rid] = ('flow' if not okflow else 'size' if not sizes_ok else 'labels', title, spec, vals, None, final_text(fin))
            # differential validation of the engine on this path: min / model / max of the first size
            rid = 'V:%s:%d' % (title, len(drv_reqs))
            drv_reqs.append((rid, spec_text(spec, vals))); drv_meta[rid] = ('validate', title, spec, vals, None, final_text(fin))
            if len(st['samples']) < 5 and len(res) > 1 and r is res[-1]:
                st['samples'].append(dict(layout=title, lines=spec, paths=len(res), example_sizes=vals, result=final_text(fin),
                                          verdict='every branch displacement in -128..127 for all filler sizes 0..255 on this path (unsat); flow equal for the 8 flag states'))
        st['solver_s'] += time.time() - t0
    # replay / validation through the real check_branches
    R = common.asm_many('B', drv_reqs)
    for rid, (what, title, spec, vals, extra, pred) in drv_meta.items():
        j = R.get(rid, {})
        st['driver_runs'] += 1
        if what == 'validate':
            real = [l for l in j.get('text', '').split('\n') if l.strip() and not l.startswith(';')]
            if j.get('status') != 'ok' or real != pred:
                rep.inconc('engine/real mismatch on layout %s sizes %s: predicted %s, real %s' % (title, vals, pred, real if j.get('status') == 'ok' else j))
            else: st['validated_paths'] += 1
            continue
        key = '%s.%s.%s' % (keyprefix, what, title)
        if only is not None and what not in only: continue
        if what == 'panic':
            if j.get('status') == 'panic': rep.violation(key, 'check_branches panics on layout %s with sizes %s: %s' % (title, vals, j.get('msg')), dict(kind='mir-branch', layout=spec, sizes=vals, spec=spec_text(spec, vals)))
            else: rep.inconc('panic path of layout %s did not reproduce (%s)' % (title, pred))
            continue
        real = [l for l in j.get('text', '').split('\n') if l.strip() and not l.startswith(';')]
        if j.get('status') != 'ok': rep.inconc('driver failed on %s: %s' % (rid, j)); continue
        # recompute concretely on the REAL output
        fin = []
        for l in real:
            if not l[0].isspace(): fin.append(('L', l.strip())); continue
            t = l.split()
            if t[0] in BR: fin.append(('B', t[0], t[1], None))
            elif t[0] == 'JMP': fin.append(('J', t[1], None))
            else: fin.append(('F', t[0], z3.BitVecVal(vals[t[0]], 32)))
        orig = [('B', s[1], s[2], None) if s[0] == 'B' else ('L', s[1]) if s[0] == 'L' else ('F', s[1], None) if s[0] == 'F' else ('X',) for s in spec]
        bad = None
        if what == 'disp':
            for k, x in enumerate(fin):
                if x[0] == 'B':
                    d = z3.simplify(displacement(fin, k)).as_signed_long()
                    if not -128 <= d <= 127: bad = 'branch %s %s has displacement %d' % (x[1], x[2], d)
        elif what == 'flow':
            for f in itertools.product((False, True), repeat=3):
                if flow(orig, f) != flow(fin, f): bad = 'flags N=%s Z=%s C=%s: original flow %s, repaired flow %s' % (f[0], f[1], f[2], flow(orig, f), flow(fin, f))
        else:
            bad = '%s of created instructions wrong: %s (reported size %s)' % (what, real, j.get('size'))
        if bad: rep.violation(key, 'layout %s with filler sizes %s: %s' % (title, vals, bad), dict(kind='mir-branch', layout=spec, sizes=vals, spec=spec_text(spec, vals), result=real))
        else: rep.inconc('model for %s on layout %s did not reproduce on the real function' % (what, title))


# ----------------------------------------------------------------------------- E-TV part
class Sized:
    """one program shape printed with a small body (no repair needed) and with a big one (far branches)"""
    def __init__(self, pid, mk, n): self.pid, self.mk, self.n = pid, mk, n
    def c(self): return self.mk(6).c()
    def big(self): return self.mk(self.n).c()
    def gnames(self): return self.mk(6).gnames()


def big_programs(tier):
    for p in _big_programs(tier): yield p


def _big_programs(tier):
    nops = lambda n: [Raw('asm', 'NOP', 1) for _ in range(n)]
    conds = [('u8' + op, (lambda op=op: B(op, V('va'), V('vb')))) for op in ('<', '<=', '>', '>=', '==', '!=')] + \
            [('s8' + op, (lambda op=op: B(op, V('sa'), V('sb')))) for op in ('<', '<=', '>', '>=')] + \
            [('k' + op, (lambda op=op: B(op, V('va'), C(5)))) for op in ('<', '<=', '>', '>=')] + \
            [('w' + op, (lambda op=op: B(op, V('wa'), V('wb')))) for op in ('<', '>=', '==')] + \
            [('or', lambda: B('||', V('va'), B('==', V('vb'), C(3)))), ('and', lambda: B('&&', V('va'), B('<', V('vb'), C(3))))]
    sizes = [122, 124, 125, 126, 127, 128, 129, 130] if tier == 'quick' else list(range(118, 136))
    for (cn, c), n in itertools.product(conds, sizes):
        yield Sized('big/if/%s/%d' % (cn, n), (lambda k, c=c, cn=cn: mkprog('big/if/%s' % cn, [If(c(), Block([A(V('vc'), C(1))] + nops(k))), A(V('vd'), C(7))])), n)
        if n % 2 == 0 or tier == 'thorough':
            yield Sized('big/ifelse/%s/%d' % (cn, n), (lambda k, c=c, cn=cn: mkprog('big/ifelse/%s' % cn, [If(c(), Block([A(V('vc'), C(1))] + nops(k)), Block([A(V('vc'), C(2))] + nops(k)))])), n)
            yield Sized('big/dowhile/%s/%d' % (cn, n), (lambda k, c=c, cn=cn: mkprog('big/dowhile/%s' % cn, [A(V('vd'), C(2)), DoWhile(Block(nops(k) + [ExprS(Inc('--', False, V('vd'))), ExprS(Inc('++', False, V('vc')))]), B('&&', V('vd'), c()))])), n)
            yield Sized('big/while/%s/%d' % (cn, n), (lambda k, c=c, cn=cn: mkprog('big/while/%s' % cn, [A(V('vd'), C(2)), While(B('&&', V('vd'), c()), Block(nops(k) + [ExprS(Inc('--', False, V('vd'))), ExprS(Inc('++', False, V('vc')))]))])), n)
    for (cn, c), n1, n2 in itertools.product(conds[:8], (60, 126), (64, 126)):
        yield Sized('big/nested/%s/%d/%d' % (cn, n1, n2), (lambda k, c=c, cn=cn, n1=n1: mkprog('big/nested/%s' % cn, [If(c(), Block(nops(n1 if k > 6 else 3) + [If(B('>', V('vc'), V('vd')), Block([A(V('vc'), C(9))] + nops(k)))])), A(V('vd'), C(7))])), n2)


class Plain:
    """a program checked for displacements and sizes only (its body is real code, so there is no short-body twin)"""
    def __init__(self, p): self.pid, self.p = p.pid, p
    def big(self): return self.p.c()


def window_programs(tier):
    """a forward branch over / a backward branch around n copies of a statement whose instructions use the less common addressing
    modes (abs,Y where no zp,Y form exists; indirect; 16-bit elements), n swept across the short-branch limit: the repair decision
    rests on the recorded size of every instruction in between"""
    Y, X = V('Y'), V('X')
    fillers = [('aY', lambda: A(Index('brr', Y), Index('arr', Y))), ('wY', lambda: A(V('wa'), Index('warr', Y))), ('wX', lambda: A(V('wa'), Index('warr', X))), ('wY-st', lambda: A(Index('warr', Y), V('wa'))),
               ('ptrY', lambda: A(V('vd'), Index('pp', Y))), ('incX', lambda: ExprS(Inc('++', False, Index('arr', X)))), ('w-add', lambda: A(V('wa'), V('wb'), '+=')), ('X=aY', lambda: A(X, Index('arr', Y))), ('aY=X', lambda: A(Index('arr', Y), X)),
               ('cmpY', lambda: If(B('==', Index('arr', Y), C(3)), A(V('vd'), C(1))))]
    for (fn, f), n in itertools.product(fillers, range(6, 36)):
        if tier == 'quick' and n % 2: continue
        yield Plain(mkprog('window/%s/if/%d' % (fn, n), [If(B('==', V('va'), V('vb')), Block([f() for _ in range(n)])), A(V('vc'), C(1))]))
        yield Plain(mkprog('window/%s/dowhile/%d' % (fn, n), [A(V('sc'), C(2)), DoWhile(Block([f() for _ in range(n)] + [ExprS(Inc('--', False, V('sc')))]), V('sc'))]))
        if n % 4 == 0: yield Plain(mkprog('window/%s/le/%d' % (fn, n), [If(B('<=', V('va'), V('vb')), Block([f() for _ in range(n)]), A(V('vc'), C(2)))]))


def check_big(rep, tier, st):
    from equiv import Session
    from sym6502 import AsmError, Unsupported as U2
    progs = list(big_programs(tier))
    wins = list(window_programs(tier))
    reqs = [('%s@%s' % (p.pid, l), [l], p.big()) for p in progs + wins for l in ('-O1', '-O0')]
    R = common.compile_many(reqs)
    for p in progs + wins:
        for l in ('-O1', '-O0'):
            c = R['%s@%s' % (p.pid, l)]
            if c.status != 'ok': st['big_rejected'] += 1; continue
            try:
                v = Session().variant(c)
            except (AsmError, U2) as e:
                if 'branch out of range' in str(e):
                    rep.violation('disp:%s@%s' % (p.pid, l), '%s (%s): %s' % (p.pid, l, e), dict(kind='tv-disp', source=p.big(), args=[l], msg=str(e)))
                else: rep.inconc('big program %s does not assemble: %s' % (p.pid, e))
                continue
            st['big_programs'] += 1
            for f in v.prog.func_range:
                for ins, d in v.prog.branch_displacements(f):
                    st['big_branches'] += 1
                    if not -128 <= d <= 127:
                        rep.violation('disp:%s@%s' % (p.pid, l), '%s (%s): `%s` in %s has displacement %d with real encodings' % (p.pid, l, ins.raw.strip(), f, d),
                                      dict(kind='tv-disp', source=p.big(), args=[l], instruction=ins.raw.strip(), displacement=d))
                if c.funcs[f]['size'] != v.prog.func_size(f):
                    rep.violation('size:%s@%s' % (p.pid, l), '%s (%s): size_bytes() of %s = %d, assembled size = %d' % (p.pid, l, f, c.funcs[f]['size'], v.prog.func_size(f)),
                                  dict(kind='tv-size', source=p.big(), args=[l]))
    # the far-branch version must behave exactly like the same program with a short body (NOPs have no effect), for all inputs
    smp = []
    for l in ('-O1', '-O0'):
        st2, s2, results = runner.relational(rep, progs, [('short-body', [], None), ('long-body', [], lambda p: p.big())], 'short-body', args_base=[l], opts=dict(max_steps=8000))
        st['big_decided'] += st2['decided']; st['big_queries'] += st2['queries']; st['big_solver_s'] += round(st2['solver_s'], 1); smp += s2[:1]
    return smp


def run(tier):
    rep = common.Report('C03', tier, 'other')
    common.build_driver()
    st = collections.defaultdict(int); st['samples'] = []
    mir = load('on')
    check_layouts(rep, mir, tier, st)
    smp = check_big(rep, tier, st)
    rep.cov = dict(explanation='bounded symbolic execution of the rustc MIR of AssemblyCode::check_branches on enumerated line layouts (1-3 branches, all six branch mnemonics, BCC+BEQ / BMI+BEQ pairs, '
                   'forward/backward/crossing/nested targets, Dummy/Comment lines) with every filler size a symbolic 0..255: z3 decides the displacement of every resulting branch with real encodings; '
                   'control flow compared for all 8 N/Z/C states; every path validated against the real function through the driver. Plus E-TV programs with 118..135-byte bodies.',
                   obligations=st['obligations'], discharged=st['discharged'], evaluations=st['paths'] + st['big_programs'], distinct_nontrivial=st['paths'], layouts=st['layouts'], paths=st['paths'],
                   validated_paths_against_real_code=st['validated_paths'], driver_runs=st['driver_runs'], queries=st['queries'] + st['big_queries'], solver_s=round(st['solver_s'], 1) + st['big_solver_s'],
                   functions_encoded=st['functions'], big_programs=st['big_programs'], big_branches_checked=st['big_branches'], big_decided_vs_reference=st['big_decided'], samples=st['samples'] + smp[:2],
                   bounds=dict(lines_per_layout='<= 9', branches='<= 3', filler_size='0..255 each (symbolic)', restart_loop='unrolled until fixpoint, step bound 6000 (bound hit = inconclusive)',
                               flags='all 8 N/Z/C states, enumerated'), models_used=sorted(MODELS), trusted_base=['mirsym + Vec/String models', 'z3', 'driver B mode'])
    rep.assumptions = ['fillers do not change flags', 'input labels are distinct and not of the form .fix*', 'logging disabled']
    return rep.finish()

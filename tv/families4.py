"""G-wave4: shapes reported as already wrong on the unchanged tree by the fourth round of sub-agents (then repaired or listed), plus
neighbours of the same kind: flag knowledge across hardware-access statements, else-branches of && / || conditions, switch
case orders on computed selectors, continue inside switch inside every loop kind, shifts and rotates between two reads."""
import itertools
from cast import *
from families import V, C, A, B, mkprog, stable_pick
from families3 import flag_setters, F1, keep

X, Y = V('X'), V('Y')


def g_hwflags(tier):
    """S leaves the flags describing Z; a hardware-access statement (which loads A, transfers registers, decrements a dummy cell or
    runs arbitrary assembly) follows; then Z is tested"""
    hws = [('load0', lambda: Raw('load', C(0))), ('load_vb', lambda: Raw('load', V('vb'))), ('load_aX', lambda: Raw('load', Index('brr', X))), ('cs2', lambda: Raw('csleep', 2)), ('cs3', lambda: Raw('csleep', 3)),
           ('cs5', lambda: Raw('csleep', 5)), ('cs7', lambda: Raw('csleep', 7)), ('cs9', lambda: Raw('csleep', 9)), ('cs10', lambda: Raw('csleep', 10)), ('asm_lda0', lambda: Raw('asm', 'LDA #0', 2)),
           ('asm_nop', lambda: Raw('asm', 'NOP', 1)), ('asm_cmp', lambda: Raw('asm', 'CMP #3', 2)), ('load_X', lambda: Raw('load', X))]
    for (sn, s, z), (hn, h) in itertools.product(flag_setters(), hws):
        if sn == 'va=f': continue
        Z = lambda: V(z)
        base = 'w4/hwflags/%s/%s' % (sn, hn)
        if not keep(base, tier, 60): continue
        yield mkprog(base + '/if', [s(), h(), If(Z(), A(V('sc'), C(1)), A(V('sc'), C(2)))])
        yield mkprog(base + '/if0', [s(), h(), If(B('==', Z(), C(0)), A(V('sc'), C(1)), A(V('sc'), C(2)))])
        yield mkprog(base + '/while', [s(), h(), While(Z(), Block([A(Z(), C(0)), A(V('sc'), C(1))]))])
        yield mkprog(base + '/two', [s(), h(), h(), If(Z(), A(V('sc'), C(1)))])


def g_logic_else(tier):
    """if (P && Q) A else if (Q) B else C, and the || / negated forms: the else branch is entered from each operand of the condition"""
    ops = [('va', lambda: V('va')), ('vb', lambda: V('vb')), ('X', lambda: X), ('Y', lambda: Y), ('aX', lambda: Index('arr', X)), ('va==3', lambda: B('==', V('va'), C(3))), ('vb<vc', lambda: B('<', V('vb'), V('vc'))),
           ('wa', lambda: V('wa')), ('sa', lambda: V('sa'))]
    tests = [('va', lambda: V('va')), ('vb', lambda: V('vb')), ('X', lambda: X), ('Y', lambda: Y), ('aX', lambda: Index('arr', X)), ('wa', lambda: V('wa')), ('sa', lambda: V('sa'))]
    one, two, three = (lambda: A(V('sc'), C(1))), (lambda: A(V('sc'), C(2))), (lambda: A(V('sc'), C(3)))
    for (pn, p), (qn, q), lo in itertools.product(ops, ops, ('&&', '||')):
        if pn == qn: continue
        for tn, t in tests:
            if tn not in (pn, qn): continue
            base = 'w4/logic-else/%s%s%s/%s' % (pn, lo, qn, tn)
            if not keep(base, tier, 40): continue
            cnd = lambda: B(lo, p(), q())
            yield mkprog(base + '/else-if', [If(cnd(), one(), If(t(), two(), three()))])
            yield mkprog(base + '/else-if0', [If(cnd(), one(), If(B('==', t(), C(0)), two(), three()))])
            yield mkprog(base + '/not', [If(Un('!', cnd()), If(t(), two(), three()), one())])
            yield mkprog(base + '/then-if', [If(cnd(), If(t(), one(), two()), three())])
            yield mkprog(base + '/after', [If(cnd(), one()), If(t(), A(V('hc'), C(1)), A(V('hc'), C(2)))])
            yield mkprog(base + '/while-after', [A(V('vd'), C(2)), While(B('&&', cnd(), V('vd')), ExprS(Inc('--', False, V('vd')))), If(t(), two(), three())])
            yield mkprog(base + '/tern', [A(V('sc'), Tern(cnd(), C(1), Tern(t(), C(2), C(3))))])


def g_switch_orders(tier):
    """case values in every order (0 first, in the middle, last) on selectors held in memory, in a register and in the accumulator"""
    sels = [('va', lambda: V('va')), ('X', lambda: X), ('Y', lambda: Y), ('va&3', lambda: B('&', V('va'), C(3))), ('va+1', lambda: B('+', V('va'), C(1))), ('aX', lambda: Index('arr', X)), ('va>>1', lambda: B('>>', V('va'), C(1))),
            ('call', lambda: Call('f', [V('va')])), ('sa', lambda: V('sa')), ('va-vb', lambda: B('-', V('va'), V('vb')))]
    orders = [(0, 1, 2), (1, 0, 2), (1, 2, 0), (2, 0, 1), (3, 0), (0, 3), (255, 0, 128), (128, 255, 0), (0,), (5,), (1, 0)]
    for (sn, s), order, shape in itertools.product(sels, orders, ('brk', 'fall', 'nodef', 'defmid', 'group')):
        pid = 'w4/switch/%s/%s/%s' % (sn, '-'.join(map(str, order)), shape)
        if not keep(pid, tier, 25): continue
        fn = [F1()] if sn == 'call' else []
        body = lambda k: [A(V('vb'), C(10 + k))]
        if shape == 'brk': cases = [(v, body(k) + [Break()]) for k, v in enumerate(order)] + [(None, [A(V('vb'), C(99))])]
        elif shape == 'fall': cases = [(v, [ExprS(Inc('++', False, V('vb')))]) for v in order] + [(None, [A(V('vc'), C(7))])]
        elif shape == 'nodef': cases = [(v, body(k) + [Break()]) for k, v in enumerate(order)]
        elif shape == 'defmid': cases = [(order[0], body(0) + [Break()]), (None, [A(V('vb'), C(99)), Break()])] + [(v, body(k + 1) + [Break()]) for k, v in enumerate(order[1:])]
        else:
            if len(order) < 2: continue
            cases = [(order[0], [])] + [(v, body(k) + [Break()]) for k, v in enumerate(order[1:])] + [(None, [A(V('vb'), C(99))])]
        yield mkprog(pid, [Switch(s(), cases), ExprS(Inc('++', False, V('vd')))], funcs=fn)


def g_continue_switch(tier):
    """continue (plain and in its `if (c) continue;` form) inside a switch inside every kind of loop"""
    inc = lambda n: ExprS(Inc('++', False, V(n)))
    dec = lambda n: ExprS(Inc('--', False, V(n)))
    for form, J in (('plain', lambda: Continue()), ('if', lambda: If(V('vb'), Continue(), bare=True)), ('ifblock', lambda: If(V('vb'), Block([inc('sb'), Continue()]))), ('else', lambda: If(V('vb'), inc('sb'), Continue(), bare=True))):
        sw = lambda: Switch(V('vd'), [(1, [J(), inc('vc'), Break()]), (2, [inc('sc'), Break()]), (None, [inc('wc')])])
        sw2 = lambda: Switch(V('vd'), [(1, [Switch(V('vb'), [(0, [J()]), (None, [inc('sc')])]), inc('vc'), Break()]), (None, [inc('wc')])])
        init = [A(V('vd'), C(3))]
        for sn, s in (('sw', sw), ('sw-nested', sw2)):
            yield mkprog('w4/cont-switch/%s/%s/while' % (form, sn), init + [While(V('vd'), Block([dec('vd'), s(), inc('ha')]))])
            yield mkprog('w4/cont-switch/%s/%s/do' % (form, sn), init + [DoWhile(Block([s(), inc('ha')]), Inc('--', True, V('vd')))])
            yield mkprog('w4/cont-switch/%s/%s/do-lt' % (form, sn), [A(V('vd'), C(0)), DoWhile(Block([s(), inc('ha'), inc('vd')]), B('<', V('vd'), C(3)))])
            yield mkprog('w4/cont-switch/%s/%s/for' % (form, sn), [For(Assign(V('vd'), '=', C(0)), B('<', V('vd'), C(3)), Inc('++', False, V('vd')), Block([s(), inc('ha')]))])
            yield mkprog('w4/cont-switch/%s/%s/do-in-for' % (form, sn), [For(Assign(V('sa'), '=', C(0)), B('<', V('sa'), C(2)), Inc('++', False, V('sa')), Block(init + [DoWhile(Block([s(), inc('ha')]), Inc('--', True, V('vd')))]))])


def g_shift_reread(tier):
    """a value is read, shifted or rotated (in the accumulator or in memory), and read again"""
    P = []
    def add(n, *st): P.append(mkprog('w4/shift-reread/' + n, list(st)))
    add('sa>>1==3||sa==4', If(B('||', B('==', B('>>', V('sa'), C(1)), C(3)), B('==', V('sa'), C(4))), A(V('vc'), C(1)), A(V('vc'), C(2))))
    add('sa>>2<3&&sa', If(B('&&', B('<', B('>>', V('sa'), C(2)), C(3)), V('sa')), A(V('vc'), C(1)), A(V('vc'), C(2))))
    add('va>>1==3||va==4', If(B('||', B('==', B('>>', V('va'), C(1)), C(3)), B('==', V('va'), C(4))), A(V('vc'), C(1)), A(V('vc'), C(2))))
    add('va<<1==6||va==4', If(B('||', B('==', B('<<', V('va'), C(1)), C(6)), B('==', V('va'), C(4))), A(V('vc'), C(1)), A(V('vc'), C(2))))
    for rn in ('X', 'Y'):
        R = lambda: V(rn)
        for vn, v in (('wa', lambda: V('wa')), ('va', lambda: V('va')), ('ha', lambda: V('ha')), ('a1', lambda: Index('arr', C(1)))):
            for on, o in (('<<=1', lambda: A(v(), C(1), '<<=')), ('>>=1', lambda: A(v(), C(1), '>>=')), ('<<=2', lambda: A(v(), C(2), '<<=')), ('++', lambda: ExprS(Inc('++', False, v()))), ('+=va', lambda: A(v(), V('vb'), '+='))):
                add('%s=%s;%s%s;%s=%s' % (rn, vn, vn, on, rn, vn), A(R(), v()), o(), A(R(), v()), A(V('vd'), R()))
                if rn == 'X':
                    add('vd=%s;%s%s;vc=%s' % (vn, vn, on, vn), A(V('vd'), v()), o(), A(V('vc'), v()))
                    add('if(%s);%s%s;if(%s)' % (vn, vn, on, vn), If(B('==', v(), C(3)), Block([o(), If(B('==', v(), C(6)), A(V('vc'), C(1)), A(V('vc'), C(2)))])))
    return P


def g_reload_flags(tier):
    """R = v; <statement that sets N/Z without touching R or v>; R = v; <zero test of R>: the second load is redundant as a value, not as
    the source of the flags the test consumes (R in X, Y, a variable through A)"""
    srcs = [('va', lambda: V('va')), ('a1', lambda: Index('arr', C(1))), ('k0', lambda: C(0)), ('k3', lambda: C(3)), ('sa', lambda: V('sa'))]
    def clobbers(r):
        o = 'Y' if r == 'X' else 'X'
        return [('%s--' % o, lambda: ExprS(Inc('--', False, V(o)))), ('%s++' % o, lambda: ExprS(Inc('++', False, V(o)))), ('vb++', lambda: ExprS(Inc('++', False, V('vb')))), ('vc=vd', lambda: A(V('vc'), V('vd'))),
                ('vc=0', lambda: A(V('vc'), C(0))), ('%s=vd' % o, lambda: A(V(o), V('vd'))), ('b2--', lambda: ExprS(Inc('--', False, Index('brr', C(2))))), ('vc+=vd', lambda: A(V('vc'), V('vd'), '+=')), ('wa++', lambda: ExprS(Inc('++', False, V('wa')))),
                ('load', lambda: Raw('load', V('vd'))), ('cs3', lambda: Raw('csleep', 3)), ('cmp', lambda: If(B('==', V('vd'), C(5)), A(V('vc'), C(9))))]
    for r in ('X', 'Y', 'hb0'):
        R = (lambda: V(r)) if r != 'hb0' else (lambda: V('vd'))
        for (sn, sv), (cn, cl) in itertools.product(srcs, clobbers(r if r != 'hb0' else 'X')):
            if r == 'hb0' and ('vd' in cn or 'vc=' in cn): continue
            base = 'w5/reload-flags/%s=%s/%s' % (r, sn, cn)
            if not keep(base, tier, 50): continue
            yield mkprog(base + '/if', [A(R(), sv()), cl(), A(R(), sv()), If(R(), A(V('sc'), C(1)), A(V('sc'), C(2)))])
            yield mkprog(base + '/if0', [A(R(), sv()), cl(), A(R(), sv()), If(B('==', R(), C(0)), A(V('sc'), C(1)))])
            yield mkprog(base + '/tern', [A(R(), sv()), cl(), A(R(), sv()), A(V('sc'), Tern(R(), C(1), C(2)))])
            yield mkprog(base + '/neg', [A(R(), sv()), cl(), A(R(), sv()), If(B('<', R(), C(128)), A(V('sc'), C(1)), A(V('sc'), C(2)))])
            yield mkprog(base + '/twice', [A(R(), sv()), cl(), cl(), A(R(), sv()), If(Un('!', R()), A(V('sc'), C(1)))])


def g_signflag(tier):
    """a statement that updates a signed variable (8- and 16-bit: the 16-bit increment is INC lo / BNE / INC hi, whose final N flag is
    not the sign of the value), then a SIGN test of it"""
    setters = [('ha++', lambda: ExprS(Inc('++', False, V('ha'))), 'ha'), ('++ha', lambda: ExprS(Inc('++', True, V('ha'))), 'ha'), ('ha--', lambda: ExprS(Inc('--', False, V('ha'))), 'ha'), ('ha+=1', lambda: A(V('ha'), C(1), '+=')), 
               ('ha=hb', lambda: A(V('ha'), V('hb')), 'ha'), ('ha=hb+hc', lambda: A(V('ha'), B('+', V('hb'), V('hc'))), 'ha'), ('ha=sa', lambda: A(V('ha'), V('sa')), 'ha'), ('ha-=hb', lambda: A(V('ha'), V('hb'), '-='), 'ha'),
               ('sa++', lambda: ExprS(Inc('++', False, V('sa'))), 'sa'), ('sa--', lambda: ExprS(Inc('--', False, V('sa'))), 'sa'), ('sa=sb', lambda: A(V('sa'), V('sb')), 'sa'), ('sa=sb-1', lambda: A(V('sa'), B('-', V('sb'), C(1))), 'sa'),
               ('sa+=sb', lambda: A(V('sa'), V('sb'), '+='), 'sa'), ('sa=-sb', lambda: A(V('sa'), Un('-', V('sb'))), 'sa'), ('h1++', lambda: ExprS(Inc('++', False, Index('harr', C(1)))), None)]
    setters = [(t[0], t[1], t[2] if len(t) > 2 else 'ha') for t in setters if t[0] != 'h1++']
    one, two = (lambda: A(V('sc'), C(1))), (lambda: A(V('sc'), C(2)))
    for (sn, st, z), (tn, op) in itertools.product(setters, (('lt0', '<'), ('ge0', '>='))):
        Z = lambda: V(z)
        t = lambda: B(op, Z(), C(0))
        base = 'w5/signflag/%s/%s' % (sn, tn)
        yield mkprog(base + '/if', [st(), If(t(), one(), two())])
        yield mkprog(base + '/tern', [st(), A(V('sc'), Tern(t(), C(1), C(2)))])
        yield mkprog(base + '/and', [st(), If(B('&&', t(), V('vd')), one(), two())])
        yield mkprog(base + '/else-if', [st(), If(V('vd'), one(), If(t(), two(), A(V('sc'), C(3))))])
        yield mkprog(base + '/not', [st(), If(Un('!', t()), one(), two())])
        yield mkprog(base + '/while', [st(), A(V('hc'), C(2)), While(B('&&', t(), V('hc')), ExprS(Inc('--', False, V('hc')))), one()])


def g_jmp_label(tier):
    """two paths that leave different constants in a register meet at a label that directly follows a JMP to it (the optimiser removes
    such a JMP): break at the end of the last case, return at the end of an inline body, continue at the end of a loop body - then a
    statement that needs one of the constants"""
    inc = lambda n: ExprS(Inc('++', False, V(n)))
    regs = [('vb', lambda: V('vb')), ('X', lambda: X), ('Y', lambda: Y)]
    for (rn, R), (k1, k2) in itertools.product(regs, ((5, 7), (0, 1), (2, 2))):
        base = 'w5/jmp-label/%s/%d-%d' % (rn, k1, k2)
        after = [('st', lambda: A(V('vc'), C(k2))), ('inc-st', lambda: Block([inc('vd'), A(V('vc'), C(k2))])), ('cmp', lambda: If(B('==', R(), C(k2)), A(V('vc'), C(1)), A(V('vc'), C(2)))),
                 ('reg', lambda: A(X if rn != 'X' else Y, C(k2))), ('st1', lambda: A(V('vc'), C(k1)))]
        for an, af in after:
            yield mkprog(base + '/switch-default-break/' + an, [Switch(V('va'), [(1, [A(R(), C(k1)), Break()]), (None, [A(R(), C(k2)), Break()])]), af()])
            yield mkprog(base + '/switch-case-break/' + an, [Switch(V('va'), [(1, [A(R(), C(k1)), Break()]), (2, [A(R(), C(k2)), Break()])]), af()])
            yield mkprog(base + '/if-else-goto/' + an, [If(V('va'), Block([A(R(), C(k1)), Goto('out')])), A(R(), C(k2)), Goto('out'), Label('out', af())])
            yield mkprog(base + '/loop-continue/' + an, [A(V('sa'), C(2)), While(V('sa'), Block([ExprS(Inc('--', False, V('sa'))), If(V('va'), Block([A(R(), C(k1)), Continue()])), A(R(), C(k2)), Continue()])), af()])
            if rn == 'vb':
                for inl in (True, False):
                    f = lambda: Func('f', 'u8', [], Block([If(V('va'), Return(C(k1))), Return(C(k2))]), inline=inl)
                    g = lambda: Func('f', 'u8', [], Block([If(V('va'), Block([Return(C(k1))]), Block([Return(C(k2))]))]), inline=inl)
                    t = 'inl' if inl else 'fn'
                    yield mkprog(base + '/%s-return/%s' % (t, an), [A(V('vb'), Call('f', [])), af()], funcs=[f()])
                    yield mkprog(base + '/%s-return-else/%s' % (t, an), [A(V('vb'), Call('f', [])), af()], funcs=[g()])
                    if an != 'st': continue
                    yield mkprog(base + '/%s-switch/%s' % (t, an), [Switch(Call('f', []), [(k2, [A(V('vc'), C(1)), Break()]), (k1 if k1 != k2 else k1 + 1, [A(V('vc'), C(2)), Break()]), (None, [A(V('vc'), C(3))])])], funcs=[f()])
                    yield mkprog(base + '/%s-if/%s' % (t, an), [If(B('==', Call('f', []), C(k2)), A(V('vc'), C(1)), A(V('vc'), C(2)))], funcs=[f()])


def g_sret(tier):
    """the value returned by a `signed char` / `unsigned char` / plain `char` function used in sign-sensitive positions"""
    one, two = (lambda: A(V('sc'), C(1))), (lambda: A(V('sc'), C(2)))
    for rt, src in itertools.product(('s8', 'u8', 'pc8'), ('sa', 'va', 'Y')):
        f = lambda: Func('f', rt, [], Block([Return(V(src))]))
        g = lambda: Func('f', rt, [('s8', 'x')], Block([If(B('<', V('x'), C(0)), Return(V('x'))), Return(B('+', V('x'), C(1)))]))
        for fn, mk, call in (('leaf', f, lambda: Call('f', [])), ('param', g, lambda: Call('f', [V('sb')]))):
            base = 'w5/sret/%s/%s/%s' % (rt, src, fn)
            if fn == 'param' and src != 'sa': continue
            # (sign tests against 0 for signed results - no overflow is possible there; range tests for unsigned ones)
            tests = (('lt0', lambda: B('<', call(), C(0))), ('ge0', lambda: B('>=', call(), C(0)))) if rt == 's8' else \
                    (('lt1', lambda: B('<', call(), C(1))), ('ge128', lambda: B('>=', call(), C(128))), ('gt200', lambda: B('>', call(), C(200))))
            for tn, t in tests:
                yield mkprog(base + '/if/' + tn, [If(t(), one(), two())], funcs=[mk()])
                yield mkprog(base + '/tern/' + tn, [A(V('sc'), Tern(t(), C(1), C(2)))], funcs=[mk()])
            if rt == 's8': yield mkprog(base + '/copy-cmp', [A(V('sb'), call()), If(B('<', V('sb'), C(0)), one(), two())], funcs=[mk()])


def g_ycond(tier):
    """truth-value conditions whose operand borrows Y (pointer dereference, pointer / array element with a constant, variable or
    computed index) while Y is live: Y must come back on BOTH ways out of the branch"""
    one, two = (lambda: A(V('sc'), C(1))), (lambda: A(V('sc'), C(2)))
    ops = [('dp', lambda: Deref('pp')), ('p2', lambda: Index('pp', C(2))), ('pvb', lambda: Index('pp', V('vb'))), ('avb', lambda: Index('arr', V('vb'))), ('avb+1', lambda: Index('arr', B('&', B('+', V('vb'), C(1)), C(3)))), ('pX', lambda: Index('pp', X))]       # (16-bit elements: known class K05, low byte only)
    tail = lambda: A(V('vd'), Y)
    for on, o in ops:
        base = 'w5/ycond/' + on
        yield mkprog(base + '/if', [If(o(), one()), tail()])
        yield mkprog(base + '/if-else', [If(o(), one(), two()), tail()])
        yield mkprog(base + '/if-not', [If(Un('!', o()), one()), tail()])
        yield mkprog(base + '/tern', [A(V('sc'), Tern(o(), C(1), C(2))), tail()])
        yield mkprog(base + '/and', [If(B('&&', o(), V('vc')), one()), tail()])
        yield mkprog(base + '/and2', [If(B('&&', V('vc'), o()), one()), tail()])
        yield mkprog(base + '/or2', [If(B('||', V('vc'), o()), one()), tail()])
        yield mkprog(base + '/while', [A(V('hc'), C(2)), While(B('&&', o(), V('hc')), ExprS(Inc('--', False, V('hc')))), tail()])
        yield mkprog(base + '/do', [A(V('hc'), C(2)), DoWhile(Block([ExprS(Inc('--', False, V('hc'))), If(B('==', V('hc'), C(0)), Break(), bare=True)]), o()), tail()])
        yield mkprog(base + '/if-use-y', [If(o(), A(Index('brr', Y), C(1)), A(Index('brr', Y), C(2)))])
        yield mkprog(base + '/eq0', [If(B('==', o(), C(0)), one()), tail()])


def g_for_entry(tier):
    """loops whose entry test is decidable at compile time (constant initial value against a constant bound): the optimiser removes
    the test; the body starts at a label that is also reached by the back edge, with other register contents. The first statement
    of the body needs the constant the initialisation left in a register."""
    inc = lambda n: ExprS(Inc('++', False, V(n)))
    for (cn, cv), k0, bound in itertools.product((('vd', lambda: V('vd')), ('X', lambda: X), ('Y', lambda: Y)), (0, 1, 5), (3,)):
        other = Y if cn == 'X' else X
        firsts = [('st-same', lambda: A(V('vb'), C(k0))), ('reg-same', lambda: A(other, C(k0))), ('cmp-same', lambda: If(B('==', cv(), C(k0)), inc('sc'))), ('hw-same', lambda: Raw('load', C(k0))),
                  ('st-two', lambda: Block([A(V('vb'), C(k0)), A(V('vc'), C(k0))]))]
        n = k0 + bound
        for fn, f in firsts:
            base = 'w6/for-entry/%s=%d/%s' % (cn, k0, fn)
            tail = lambda: A(V('wa'), cv(), '+=') if cn == 'vd' else A(V('sb'), cv(), '+=')
            yield mkprog(base + '/for-ne', [For(Assign(cv(), '=', C(k0)), B('!=', cv(), C(n)), Inc('++', False, cv()), Block([f(), tail()]))])
            yield mkprog(base + '/for-lt', [For(Assign(cv(), '=', C(k0)), B('<', cv(), C(n)), Inc('++', False, cv()), Block([f(), tail()]))])
            yield mkprog(base + '/while-ne', [A(cv(), C(k0)), While(B('!=', cv(), C(n)), Block([f(), tail(), ExprS(Inc('++', False, cv()))]))])
            yield mkprog(base + '/do', [A(cv(), C(k0)), DoWhile(Block([f(), tail(), ExprS(Inc('++', False, cv()))]), B('!=', cv(), C(n)))])
            yield mkprog(base + '/for-down', [For(Assign(cv(), '=', C(n)), B('!=', cv(), C(k0)), Inc('--', False, cv()), Block([A(V('vb'), C(n)), tail()]))])


def g_wave4(tier):
    yield from g_hwflags(tier)
    yield from g_logic_else(tier)
    yield from g_switch_orders(tier)
    yield from g_continue_switch(tier)
    yield from g_shift_reread(tier)
    yield from g_reload_flags(tier)
    yield from g_signflag(tier)
    yield from g_jmp_label(tier)
    yield from g_sret(tier)
    yield from g_ycond(tier)
    yield from g_for_entry(tier)

"""C01 Emitted 6502 code computes what the C source says - E-TV against the reference semantics (bracketing ISO/W8)."""
import common, runner, families2


def run(tier):
    rep = common.Report('C01', tier, 'translation_validation')
    common.build_driver()
    import families3
    import families4
    progs = list(families2.all_core(tier)) + list(families3.g_deep(tier)) + list(families4.g_wave4(tier))
    import families
    progs += [p for p in families.g_peep(tier) if p.pid.startswith(('peep/a/', 'peep/f/', 'peep/f2/'))]      # aliasing and flag-interplay sequences
    stats, samples, results = runner.against_reference(rep, progs)
    un = {}
    for r in results:
        if r['verdict'] == 'unsupported': un[r.get('msg', '')[:50]] = un.get(r.get('msg', '')[:50], 0) + 1
    rep.cov = dict(programs=stats['accepted'], disagreements_checked=stats['disagreements_checked'], samples=samples, generated=stats['programs'],
                   rejected_by_compiler=stats['rejected_err'], panics=stats['rejected_panic'], decided_by_solver=stats['decided'],
                   equal_only_under_W8=stats['equal_only_under_W8'], unsupported=stats['unsupported'], unsupported_reasons=un,
                   bound_hits=stats['bound_hits'], queries=stats['queries'], solver_s=round(stats['solver_s'], 1),
                   compile_s=stats['compile_s'], solve_wall_s=stats['solve_wall_s'],
                   bounds=dict(families='G-expr, G-cond, G-ctl, G-call, G-deep (shapes chosen from a coverage run of the generator), pointer/index aliasing and flag-interplay sequences', max_backward_jumps_per_path=40, array_sizes='<=4', levels=['-O1', '-O0']),
                   stats=dict(stats))
    rep.assumptions = ['A-ptr, A-dec, A-stk as in C02', 'A-idx: array indices are in range (out-of-range indexing is undefined in C)',
                       'bracketing oracle: a program is a violation only if the emitted code differs from BOTH the ISO reading (16-bit int promotion) and the W8 reading (evaluate at the widest operand/destination width)',
                       'shifts by >= operand width, division by zero: undefined in C, such states are excluded',
                       'the reference evaluator (tv/refsem.py) is trusted']
    return rep.finish()

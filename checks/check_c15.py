"""C15 Equivalent source forms behave identically - E-TV relational over rewrite pairs."""
import itertools
import common, runner
from cast import *
from families import V, C, A, B, mkprog, stable_pick
import families2


class Pair:
    """two programs that must behave identically; printed through .c() (base) and .alt"""
    def __init__(self, pid, a, b, assume=None):
        self.pid, self.a, self.b, self.assume = pid, a, b, assume
    def c(self): return self.a.c()
    def gnames(self):
        return [n for n in self.a.gnames() if n in self.b.gnames()]


def pairs(tier):
    P = []
    def add(pid, s1, s2, funcs1=(), funcs2=(), extra=(), assume=None):
        P.append(Pair(pid, mkprog(pid, s1, funcs=funcs1, extra_globals=extra), mkprog(pid + "'", s2, funcs=funcs2, extra_globals=extra), assume))
    ops8 = families2.operands8() + families2.consts8()[:5]
    ops16 = families2.operands16()
    dsts = families2.dests()
    # commute + & | ^
    for (dn, d), op, (ln, l), (rn, r) in itertools.product(dsts, ['+', '&', '|', '^'], ops8 + ops16, ops8 + ops16):
        if ln >= rn: continue
        pid = 'rw/commute/%s=%s%s%s' % (dn, ln, op, rn)
        if tier == 'quick' and not stable_pick(pid, 100, 30): continue
        add(pid, [A(d(), B(op, l(), r()))], [A(d(), B(op, r(), l()))])
    # x op= e  vs  x = x op e
    for (dn, d), op, (rn, r) in itertools.product(dsts, ['+', '-', '&', '|', '^'], ops8 + ops16 + families2.consts16()[:2]):
        pid = 'rw/cass/%s%s=%s' % (dn, op, rn)
        if tier == 'quick' and not stable_pick(pid, 100, 60): continue
        add(pid, [A(d(), r(), op + '=')], [A(d(), B(op, d(), r()))])
    for (dn, d), op, k in itertools.product(dsts[:6], ['<<', '>>'], [1, 2, 7, 8]):
        add('rw/cass/%s%s=%d' % (dn, op, k), [A(d(), C(k), op + '=')], [A(d(), B(op, d(), C(k)))])
    # ++x vs x += 1, statement and value forms
    lvs = [('va', lambda: V('va')), ('sa', lambda: V('sa')), ('wa', lambda: V('wa')), ('ha', lambda: V('ha')), ('X', lambda: V('X')), ('Y', lambda: V('Y')),
           ('a1', lambda: Index('arr', C(1))), ('aX', lambda: Index('arr', V('X'))), ('aY', lambda: Index('arr', V('Y'))), ('w2', lambda: Index('warr', C(2))), ('wX', lambda: Index('warr', V('X')))]
    for (ln, l), (op, aop) in itertools.product(lvs, [('++', '+='), ('--', '-=')]):
        add('rw/inc/%s%s' % (op, ln), [ExprS(Inc(op, True, l()))], [A(l(), C(1), aop)])
        add('rw/inc/%s%s.post' % (ln, op), [ExprS(Inc(op, False, l()))], [A(l(), C(1), aop)])
        add('rw/inc/vb=%s%s' % (op, ln), [A(V('vb'), Inc(op, True, l()))], [A(l(), C(1), aop), A(V('vb'), l())])
        add('rw/inc/vb=%s%s.post' % (ln, op), [A(V('vb'), Inc(op, False, l()))], [A(V('vb'), l()), A(l(), C(1), aop)])
    # if (c) A else B  vs  if (!c) B else A ; a < b vs b > a ; a <= b vs b >= a
    T, E = (lambda: A(V('vc'), C(1))), (lambda: A(V('vc'), C(2)))
    for (n, l, r), op in itertools.product(families2.cond_pairs(), families2.CMPS):
        cond = lambda: B(op, l(), r())
        add('rw/ifneg/%s/%s' % (n, op), [If(cond(), T(), E())], [If(Un('!', cond()), E(), T())])
        mirror = {'<': '>', '>': '<', '<=': '>=', '>=': '<=', '==': '==', '!=': '!='}[op]
        add('rw/mirror/%s/%s' % (n, op), [If(B(op, l(), r()), T(), E())], [If(B(mirror, r(), l()), T(), E())])
        if tier == 'thorough' or stable_pick('rw/mirrorset/%s/%s' % (n, op), 100, 40):
            add('rw/mirrorset/%s/%s' % (n, op), [A(V('vc'), B(op, l(), r()))], [A(V('vc'), B(mirror, r(), l()))])
        neg = {'<': '>=', '>': '<=', '<=': '>', '>=': '<', '==': '!=', '!=': '=='}[op]
        add('rw/negop/%s/%s' % (n, op), [If(B(op, l(), r()), T(), E())], [If(B(neg, l(), r()), E(), T())])
    # the same three rewrites with branches that are out of reach of a relative branch (then/else blocks of more than 127 bytes): the
    # long-branch repair negates the condition, each comparison kind has its own negation
    def big(k): return Block([st for _ in range(11) for st in (A(V('vc'), V('va'), '+='), A(V('vc'), V('vb'), '^='))] + [A(V('sc'), C(k))])
    for (n, l, r), op in itertools.product(families2.cond_pairs(), families2.CMPS):
        if tier == 'quick' and not stable_pick('rw/far/%s/%s' % (n, op), 100, 20): continue
        mirror = {'<': '>', '>': '<', '<=': '>=', '>=': '<=', '==': '==', '!=': '!='}[op]
        neg = {'<': '>=', '>': '<=', '<=': '>', '>=': '<', '==': '!=', '!=': '=='}[op]
        add('rw/far/ifneg/%s/%s' % (n, op), [If(B(op, l(), r()), big(1), big(2))], [If(Un('!', B(op, l(), r())), big(2), big(1))])
        add('rw/far/mirror/%s/%s' % (n, op), [If(B(op, l(), r()), big(1), E())], [If(B(mirror, r(), l()), big(1), E())])
        add('rw/far/negop/%s/%s' % (n, op), [If(B(op, l(), r()), big(1))], [If(B(neg, l(), r()), Empty(), big(1))])
        add('rw/far/or/%s/%s' % (n, op), [If(B('||', B(op, l(), r()), V('sb')), big(1))], [If(B('||', B(mirror, r(), l()), V('sb')), big(1))])
    for op, k0 in (('<=', 2), ('<', 3), ('!=', 3), ('>=', 254), ('>', 253)):
        step = '++' if op in ('<=', '<', '!=') else '--'
        i0 = 1 if step == '++' else 255
        add('rw/far/forwhile/%s' % op, [For(Assign(V('vd'), '=', C(i0)), B(op, V('vd'), C(k0)), Inc(step, False, V('vd')), big(1))],
            [A(V('vd'), C(i0)), While(B(op, V('vd'), C(k0)), Block([big(1), ExprS(Inc(step, False, V('vd')))]))])
        add('rw/far/dowhile/%s' % op, [A(V('vd'), C(i0)), DoWhile(Block([big(1), ExprS(Inc(step, False, V('vd')))]), B(op, V('vd'), C(k0)))],
            [A(V('vd'), C(i0)), While(C(1), Block([big(1), ExprS(Inc(step, False, V('vd'))), If(Un('!', B(op, V('vd'), C(k0))), Break())]))])
    # for vs while
    inc = lambda n: ExprS(Inc('++', False, V(n)))
    for n, init, cnd, upd, body in (
            ('up', lambda: Assign(V('va'), '=', C(0)), lambda: B('<', V('va'), C(3)), lambda: Inc('++', False, V('va')), lambda: A(V('vb'), V('va'), '+=')),
            ('ne', lambda: Assign(V('X'), '=', C(3)), lambda: B('!=', V('X'), C(0)), lambda: Inc('--', False, V('X')), lambda: A(V('vb'), Index('arr', V('X')), '+=')),
            ('y', lambda: Assign(V('Y'), '=', C(0)), lambda: B('<', V('Y'), C(4)), lambda: Inc('++', False, V('Y')), lambda: A(Index('arr', V('Y')), Index('brr', V('Y')))),
            ('w16', lambda: Assign(V('wa'), '=', C(254)), lambda: B('<', V('wa'), C(258)), lambda: Inc('++', False, V('wa')), lambda: inc('vb')),
            ('le', lambda: Assign(V('va'), '=', C(1)), lambda: B('<=', V('va'), C(3)), lambda: Inc('++', False, V('va')), lambda: A(V('vb'), C(2), '+=')),
            ('s8', lambda: Assign(V('sa'), '=', C(-2)), lambda: B('<', V('sa'), C(2)), lambda: Inc('++', False, V('sa')), lambda: inc('vb')),
            ('var', lambda: Assign(V('va'), '=', C(0)), lambda: B('<', V('va'), B('&', V('vc'), C(3))), lambda: Inc('++', False, V('va')), lambda: inc('vb'))):
        add('rw/forwhile/' + n, [For(init(), cnd(), upd(), body())], [ExprS(init()), While(cnd(), Block([body(), ExprS(upd())]))])
    # switch vs if chain
    for sn, sel in (('va', lambda: V('va')), ('X', lambda: V('X')), ('aY', lambda: Index('arr', V('Y'))), ('va&3', lambda: B('&', V('va'), C(3)))):
        add('rw/switch/' + sn, [Switch(sel(), [(0, [A(V('vb'), C(10)), Break()]), (1, [A(V('vb'), C(11)), Break()]), (7, [A(V('vb'), C(17)), Break()]), (None, [A(V('vb'), C(12))])])],
            [If(B('==', sel(), C(0)), A(V('vb'), C(10)), If(B('==', sel(), C(1)), A(V('vb'), C(11)), If(B('==', sel(), C(7)), A(V('vb'), C(17)), A(V('vb'), C(12)))))])
        add('rw/switch_nodef/' + sn, [Switch(sel(), [(2, [A(V('vb'), C(1)), Break()]), (200, [A(V('vb'), C(2)), Break()])])],
            [If(B('==', sel(), C(2)), A(V('vb'), C(1)), If(B('==', sel(), C(200)), A(V('vb'), C(2))))])
    # switch whose last case ends in `break` (a JMP to the label that follows it) vs the if chain, followed by a statement that needs
    # the constant one of the paths left in A / X / Y
    for (sn, sel), (dn, dst), tail in itertools.product([('va', lambda: V('va')), ('X', lambda: V('X'))], [('vb', lambda: V('vb')), ('Y', lambda: V('Y'))], ('st', 'inc-st', 'cmp')):
        tl = {'st': lambda: [A(V('vc'), C(12))], 'inc-st': lambda: [ExprS(Inc('++', False, V('vd'))), A(V('vc'), C(12))], 'cmp': lambda: [If(B('==', dst(), C(12)), A(V('vc'), C(1)), A(V('vc'), C(2)))]}[tail]
        add('rw/switch-tail/%s/%s/%s' % (sn, dn, tail), [Switch(sel(), [(0, [A(dst(), C(10)), Break()]), (1, [A(dst(), C(11)), Break()]), (None, [A(dst(), C(12)), Break()])])] + tl(),
            [If(B('==', sel(), C(0)), A(dst(), C(10)), If(B('==', sel(), C(1)), A(dst(), C(11)), A(dst(), C(12))))] + tl())
        add('rw/switch-tail-nodef/%s/%s/%s' % (sn, dn, tail), [Switch(sel(), [(0, [A(dst(), C(10)), Break()]), (1, [A(dst(), C(12)), Break()])])] + tl(),
            [If(B('==', sel(), C(0)), A(dst(), C(10)), If(B('==', sel(), C(1)), A(dst(), C(12))))] + tl())
    # index through a register holding k vs constant k (query restricted to states with reg == k)
    for reg, k in itertools.product(('X', 'Y'), (0, 2, 3)):
        for n, mk in (('ld', lambda i: [A(V('va'), Index('arr', i))]), ('st', lambda i: [A(Index('arr', i), V('va'))]), ('add', lambda i: [A(V('vb'), B('+', V('va'), Index('arr', i)))]),
                      ('inc', lambda i: [ExprS(Inc('++', False, Index('arr', i)))]), ('cmp', lambda i: [If(B('<', Index('arr', i), V('va')), A(V('vc'), C(1)), A(V('vc'), C(2)))]),
                      ('cass', lambda i: [A(Index('arr', i), V('va'), '+=')]), ('w_ld', lambda i: [A(V('wa'), Index('warr', i))]), ('w_st', lambda i: [A(Index('warr', i), V('wa'))]),
                      ('w_cass', lambda i: [A(Index('warr', i), V('wb'), '+=')]), ('w_hi', lambda i: [A(V('va'), B('>>', Index('warr', i), C(8)))]), ('w_lo', lambda i: [A(V('va'), Index('warr', i))]),
                      ('w_hi_cmp', lambda i: [If(B('==', B('>>', Index('warr', i), C(8)), V('va')), A(V('vc'), C(1)), A(V('vc'), C(2)))]), ('w_cmp', lambda i: [If(B('==', Index('warr', i), V('wa')), A(V('vc'), C(1)), A(V('vc'), C(2)))]),
                      ('w_hi_add', lambda i: [A(V('vb'), B('+', V('va'), B('>>', Index('warr', i), C(8))))]), ('w_inc', lambda i: [ExprS(Inc('++', False, Index('warr', i)))])):
            if n.startswith('w_') and k == 3: continue
            add('rw/regidx/%s/%s=%d' % (n, reg, k), mk(V(reg)), mk(C(k)), assume={reg: k})
    # the mirrored comparison / register-index rewrites inside contexts that consult cached flag and register knowledge afterwards
    import families3
    for pid, s1, s2, assume in families3.ctx_rewrites(tier):
        add('rw/' + pid, s1, s2, assume=assume)
    # if (c) A else B  vs  if (!c) B else A  where the else side starts with a zero test of a value set by the PRECEDING statement
    for (sn, s, z), (cn, cnd) in itertools.product(families3.flag_setters(), [('Y==3', lambda: B('==', V('Y'), C(3))), ('vb<vc', lambda: B('<', V('vb'), V('vc'))), ('vd', lambda: V('vd')), ('bY==1', lambda: B('==', Index('brr', V('Y')), C(1)))]):
        if z in cn or sn == 'va=f': continue
        pid = 'rw/flagctx/%s/%s' % (sn, cn)
        if tier == 'quick' and not stable_pick(pid, 100, 60): continue
        one, two, three = (lambda: A(V('sc'), C(1))), (lambda: A(V('sc'), C(2))), (lambda: A(V('sc'), C(3)))
        for zn, zt in (('nz', lambda: V(z)), ('z', lambda: B('==', V(z), C(0)))):
            add(pid + '/else/' + zn, [s(), If(cnd(), one(), If(zt(), two(), three()))], [s(), If(Un('!', cnd()), If(zt(), two(), three()), one())])
            add(pid + '/then/' + zn, [s(), If(cnd(), If(zt(), one(), two()), three())], [s(), If(Un('!', cnd()), three(), If(zt(), one(), two()))])
    # an expression in the initialiser of a local variable vs the same expression assigned (two operator tables)
    bops = ['+', '-', '&', '|', '^', '<<', '>>', '<', '<=', '>', '>=', '==', '!=', '&&', '||']
    for o1, o2 in itertools.product(bops, bops):
        r3 = lambda: C(2) if o2 in ('<<', '>>') else V('vd'); r2 = lambda: C(1) if o1 in ('<<', '>>') else V('vc')
        e = lambda: Flat([V('vb'), o1, r2(), o2, r3()])
        fi = Func('fi', None, [], Block([A(V('va'), V('l'))], decls=[('u8', 'l', e())]))
        fa = Func('fi', None, [], Block([A(V('va'), e())]))
        add('rw/init-vs-assign/vb%svc%svd' % (o1, o2), [ExprS(Call('fi', []))], [ExprS(Call('fi', []))], funcs1=[fi], funcs2=[fa], extra=['va', 'vb', 'vc', 'vd'])
    # call vs body written in place
    F = Func
    ret = lambda e: Return(e)
    add('rw/inplace/inc', [A(V('vb'), Call('f', [V('va')]))], [A(V('vb'), B('+', V('va'), C(1)))], funcs1=[F('f', 'u8', [('u8', 'x')], Block([ret(B('+', V('x'), C(1)))]))])
    add('rw/inplace/void', [ExprS(Inc('--', False, V('va'))), ExprS(Call('f', [])), If(V('va'), A(V('vb'), C(1)), A(V('vb'), C(2)))],
        [ExprS(Inc('--', False, V('va'))), inc('vc'), If(V('va'), A(V('vb'), C(1)), A(V('vb'), C(2)))], funcs1=[F('f', None, [], Block([inc('vc')]))], extra=['vc'])
    add('rw/inplace/void_x', [ExprS(Inc('--', False, V('Y'))), ExprS(Call('f', [])), If(V('Y'), A(V('vb'), C(1)), A(V('vb'), C(2)))],
        [ExprS(Inc('--', False, V('Y'))), A(V('X'), C(0)), If(V('Y'), A(V('vb'), C(1)), A(V('vb'), C(2)))], funcs1=[F('f', None, [], Block([A(V('X'), C(0))]))])
    # the same with the callee inline: a statement that sets the flags, the call, a zero test of the same value
    for sn, s, z in families3.flag_setters():
        if sn == 'va=f': continue
        for bn, body in (('vc++', lambda: inc('vc')), ('X=0', lambda: A(V('X'), C(0))), ('vc=vd+1', lambda: A(V('vc'), B('+', V('vd'), C(1)))), ('if', lambda: If(V('vd'), inc('vc')))):
            if bn == 'X=0' and z == 'X': continue
            add('rw/inplace-inline/%s/%s' % (sn, bn), [s(), ExprS(Call('f', [])), If(V(z), A(V('sb'), C(1)), A(V('sb'), C(2)))], [s(), body(), If(V(z), A(V('sb'), C(1)), A(V('sb'), C(2)))],
                funcs1=[F('f', None, [], Block([body()]), inline=True)], extra=['vc', 'vd'])
    add('rw/inplace/two', [A(V('vc'), Call('f', [V('va'), V('vb')]))], [A(V('vc'), B('-', V('va'), V('vb')))], funcs1=[F('f', 'u8', [('u8', 'x'), ('u8', 'y')], Block([ret(B('-', V('x'), V('y')))]))])
    add('rw/inplace/cond', [If(Call('f', [V('va')]), A(V('vb'), C(1)), A(V('vb'), C(2)))], [If(B('&', V('va'), C(1)), A(V('vb'), C(1)), A(V('vb'), C(2)))],
        funcs1=[F('f', 'u8', [('u8', 'x')], Block([ret(B('&', V('x'), C(1)))]))])
    add('rw/inplace/short', [A(V('wa'), Call('f', [V('wb')]))], [A(V('wa'), B('+', V('wb'), C(256)))], funcs1=[F('f', 'u16', [('u16', 'x')], Block([ret(B('+', V('x'), C(256)))]))])
    return P


def run(tier):
    rep = common.Report('C15', tier, 'translation_validation')
    common.build_driver()
    ps = pairs(tier)
    allstats, samples = {}, []
    groups = {}
    for p in ps:
        src = p.a.c() + p.b.c()
        lim = {}
        for reg in ('X', 'Y'):
            if '[%s]' % reg in src and not (p.assume and reg in p.assume): lim[reg + '<'] = 3
        p.lim = lim
        groups.setdefault((tuple(sorted((p.assume or {}).items())), tuple(sorted(lim.items()))), []).append(p)
    for lvl in (['-O1'], ['-O0']):
        for (asm_, lim_), grp in groups.items():
            stats, smp, results = runner.relational(rep, grp, [('orig', [], None), ('rewritten', [], lambda p: p.b.c())], 'orig', args_base=lvl,
                                                    opts=dict(assume_regs=dict(asm_), assume_lt=dict(lim_)))
            a = allstats.setdefault(lvl[0], {})
            for k, v in stats.items(): a[k] = a.get(k, 0) + v
            samples += smp[:1]
    tot = lambda k: sum(s.get(k, 0) for s in allstats.values())
    rep.cov = dict(programs=tot('accepted'), disagreements_checked=tot('disagreements_checked'), samples=samples[:8], variant_pairs=tot('variants'),
                   identical_by_text=tot('identical_by_text'), decided_by_solver=tot('decided'), variant_rejected=tot('variant_err'),
                   unsupported=tot('unsupported'), bound_hits=tot('bound_hits'), queries=tot('queries'), solver_s=round(tot('solver_s'), 1),
                   bounds=dict(rewrites=['commute + & | ^', 'x op= e / x = x op e', '++x / x += 1', 'if(c) A else B / if(!c) B else A', 'a<b / b>a', 'negated operator with swapped arms',
                                         'for / while', 'switch / if-chain', 'register index holding k / constant k', 'call / body in place'], levels=['-O1', '-O0']), stats=allstats)
    rep.assumptions = ['as C02', 'register-index rewrites: the query is restricted to initial states with the register equal to k',
                       'a rewritten form rejected by the compiler while the original is accepted is counted, not compared']
    return rep.finish()

"""Mini-linker: address layout for the symbols of one compilation, following the downstream builders
(cctmp at $80, zero-page variables in sorted_variables order, split-port RAM at $1000, ROM tables at $F000+)."""
import re
from sym6502 import AsmError, Unsupported

SUPER_W, SUPER_R_OFF = 0x1000, 0x80
E3_R, E3_W_OFF = 0x1000, 0x400
E3P_W_OFF = 0x200
PTR_REGION = 0x4000      # where A-ptr lets pointers point (size 0x100, see equiv.py)


def ram_bytes(v):
    t, n = v['type'], v['size']
    if n > 1:
        return {'CharPtr': 1, 'CharPtrPtr': 2, 'ShortPtr': 2}.get(t, None) and n * {'CharPtr': 1, 'CharPtrPtr': 2, 'ShortPtr': 2}[t]
    return {'Char': 1, 'Short': 2, 'CharPtr': 2, 'CharPtrPtr': 2, 'ShortPtr': 2}[t]


def parse_def(d):
    """-> ('none',) | ('int', n) | ('lo'|'hi', sym, off) | ('array', [items]) | ('ptrs', [(sym, off)])"""
    if d == 'None': return ('none',)
    m = re.match(r'^Value\(Int\((-?\d+)\)\)$', d)
    if m: return ('int', int(m.group(1)))
    m = re.match(r'^Value\((LowPtr|HiPtr)\(\("([^"]*)", (-?\d+)\)\)\)$', d)
    if m: return ('lo' if m.group(1) == 'LowPtr' else 'hi', m.group(2), int(m.group(3)))
    if d.startswith('Array(['):
        items = []
        for m in re.finditer(r'Int\((-?\d+)\)|(LowPtr|HiPtr)\(\("([^"]*)", (-?\d+)\)\)', d):
            if m.group(1) is not None: items.append(('int', int(m.group(1))))
            else: items.append(('lo' if m.group(2) == 'LowPtr' else 'hi', m.group(3), int(m.group(4))))
        return ('array', items)
    if d.startswith('ArrayOfPointers(['):
        return ('ptrs', [(m.group(1), int(m.group(2))) for m in re.finditer(r'\("([^"]*)", (-?\d+)\)', d)])
    raise Unsupported('definition ' + d[:40])


class Alloc:
    """shared between the variants of one program so that equal names get equal addresses"""
    def __init__(self, zp_base=0x81):
        self.zp, self.sc, self.oc, self.rom = zp_base, SUPER_W, E3_R, 0xF000
        self.ram = {}     # name -> (addr, n)
        self.romd = {}    # (name, def) -> addr


class Layout:
    def __init__(self, comp, alloc=None):
        A = alloc or Alloc()
        self.sym = {'cctmp': 0x80}
        self.ram = []        # (name, addr, nbytes, var)  observable RAM objects
        self.rom = {}        # addr -> byte (concrete initial content)
        self.super = []      # (name, write_addr, nbytes)
        self.onchip = []
        self.scheme = comp.scheme
        self.extents = []    # [(lo, hi)] index ranges: one per byte-plane of every array (A-idx)
        self.vars = {v['name']: v for v in comp.vars}
        later = []
        for v in comp.vars:
            if v['mem'] == 'Dummy': continue
            d = parse_def(v['d'])
            name = v['name']
            if d[0] == 'int':
                self.sym[name] = d[1]; continue
            if d[0] in ('lo', 'hi'):
                later.append((name, d)); continue
            if d[0] == 'none':
                n = ram_bytes(v)
                if n is None: raise Unsupported('variable shape %s' % v)
                key = (name, v['mem'])
                if key in A.ram and A.ram[key][1] == n:
                    a = A.ram[key][0]
                elif v['mem'] == 'Zeropage':
                    a = A.zp; A.zp += n
                elif v['mem'] == 'Superchip':
                    a = A.sc; A.sc += n
                elif v['mem'].startswith('MemoryOnChip'):
                    a = A.oc; A.oc += n
                else:
                    raise Unsupported('memory class ' + v['mem'])
                A.ram[key] = (a, n)
                self.sym[name] = a; self.ram.append((name, a, n, v))
                if v['size'] > 1:
                    planes = n // v['size']
                    for k in range(planes): self.extents.append((a + k * v['size'], a + (k + 1) * v['size']))
                if v['mem'] == 'Superchip': self.super.append((name, a, n))
                elif v['mem'] != 'Zeropage': self.onchip.append((name, a, n))
                continue
            # ROM data
            nb = (len(d[1]) * (2 if v['type'] == 'ShortPtr' else 1)) if d[0] == 'array' else 2 * len(d[1])
            key = (name, v['d'])
            if key not in A.romd:
                A.romd[key] = A.rom; A.rom += nb + 3
            rom = A.romd[key]
            self.sym[name] = rom
            cnt = len(d[1])
            if cnt:
                for k in range(nb // cnt): self.extents.append((rom + k * cnt, rom + (k + 1) * cnt))
            if d[0] == 'array':
                later.append((name, ('romarray', rom, d[1], v['type'])))
            else:
                later.append((name, ('romptrs', rom, d[1])))
        if A.zp > 0x100: raise Unsupported('zero page exhausted')
        if A.sc > SUPER_W + 0x80: raise Unsupported('superchip RAM exhausted')
        for name, d in later:
            if d[0] in ('lo', 'hi'):
                a = self._addr(d[1]) + d[2]
                self.sym[name] = (a & 0xff) if d[0] == 'lo' else ((a >> 8) & 0xff)
            elif d[0] == 'romarray':
                _, base, items, ty = d
                vals = []
                for it in items:
                    if it[0] == 'int': vals.append(it[1])
                    else:
                        a = self._addr(it[1]) + it[2]
                        vals.append((a & 0xff) if it[0] == 'lo' else ((a >> 8) & 0xff))
                for k, x in enumerate(vals): self.rom[base + k] = x & 0xff
                if ty == 'ShortPtr':
                    for k, x in enumerate(vals): self.rom[base + len(vals) + k] = (x >> 8) & 0xff
            else:
                _, base, ptrs = d
                for k, (s, o) in enumerate(ptrs):
                    a = self._addr(s) + o
                    self.rom[base + k] = a & 0xff; self.rom[base + len(ptrs) + k] = (a >> 8) & 0xff

    def _addr(self, s):
        if s not in self.sym: raise AsmError('undefined symbol %r in a table' % s)
        return self.sym[s]

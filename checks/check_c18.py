"""C18 Timing and hardware-access statements are emitted exactly - E-TV: (a) csleep(n) = n cycles and identity on
registers/memory, decided by z3 from a symbolic state; (b) ordered volatile-event traces equal at every optimisation level."""
import itertools, time, collections
import z3
import common, runner
from cast import *
from families import V, C, A, B, mkprog, HW_PRE, HW_ADDRS, pool_statements, stable_pick
from equiv import Session
from sym6502 import Unsupported, AsmError, is_c, bv8

HWN = {'WSYNC': 0x02, 'COLUBK': 0x09, 'INPT4': 0x3c}


def hw_pool():
    P = []
    def add(t, f): P.append((t, f))
    add('ld_hw', lambda: Raw('load', Deref('INPT4'))); add('st_hw', lambda: Raw('store', Deref('COLUBK'))); add('strobe', lambda: Raw('strobe', V('WSYNC')))
    add('ld_va', lambda: Raw('load', V('va'))); add('st_vb', lambda: Raw('store', V('vb'))); add('ld_0', lambda: Raw('load', C(0))); add('ld_X', lambda: Raw('load', V('X')))
    add('st_Y', lambda: Raw('store', V('Y'))); add('ld_ax', lambda: Raw('load', Index('arr', V('X')))); add('st_ax', lambda: Raw('store', Index('arr', V('X'))))
    for k in (2, 3, 5, 7, 9): add('cs%d' % k, (lambda k=k: Raw('csleep', k)))
    add('strobe_inpt', lambda: Raw('strobe', V('INPT4'))); add('st_inpt', lambda: Raw('store', Deref('INPT4')));
    add('asm_nop', lambda: Raw('asm', 'NOP', 1)); add('asm_wsync', lambda: Raw('asm', 'STA WSYNC', 2)); add('asm_lda', lambda: Raw('asm', 'LDA INPT4', 2))
    return P


def ord_pool():
    keep = {'mv', 'mvi', 'mvi0', 'add1', 'pass', 'inc', 'x_ld', 'x_st', 'x_inc', 'y_ld', 'ax_st', 'ax_ld', 'if_eq5', 'if_v', 'w_inc', 'neg', 'not', 'y_imm', 'x_imm', 'shl1', 'andi', 'postinc_use'}
    return [(t, f) for t, f in pool_statements() if t in keep]


def g_hw(tier):
    H, O = hw_pool(), ord_pool()
    def mk(pid, stmts, funcs=()): return mkprog(pid, stmts, funcs=funcs, pre=HW_PRE, extra_globals=['va', 'vb'])
    for (t1, f1), (t2, f2) in itertools.product(H, H + O):
        yield mk('hw/2/%s+%s' % (t1, t2), [f1(), f2()])
    for (t1, f1), (t2, f2) in itertools.product(O, H):
        yield mk('hw/2/%s+%s' % (t1, t2), [f1(), f2()])
    for (t1, f1), (t2, f2), (t3, f3) in itertools.product(H, O, H):
        pid = 'hw/3/%s+%s+%s' % (t1, t2, t3)
        if tier == 'quick' and not stable_pick(pid, 100, 12): continue
        yield mk(pid, [f1(), f2(), f3()])
    for (t1, f1), (t2, f2), (t3, f3) in itertools.product(H, H, H):
        pid = 'hw/3/%s+%s+%s' % (t1, t2, t3)
        if tier == 'quick' and not stable_pick(pid, 100, 10): continue
        yield mk(pid, [f1(), f2(), f3()])
    # the optimiser's look-ahead exits: a protected reload of the same operand after a flag clobber, followed by store / compare / load
    loads = [('va', lambda: Raw('load', V('va'))), ('hw', lambda: Raw('load', Deref('INPT4'))), ('ax', lambda: Raw('load', Index('arr', V('X')))), ('k0', lambda: Raw('load', C(0)))]
    clob = [('none', None), ('Xinc', lambda: ExprS(Inc('++', False, V('X')))), ('Ydec', lambda: ExprS(Inc('--', False, V('Y')))), ('a1inc', lambda: ExprS(Inc('++', False, Index('arr', C(1))))), ('cs3', lambda: Raw('csleep', 3))]
    after = [('st_vb', lambda: Raw('store', V('vb'))), ('st_hw', lambda: Raw('store', Deref('COLUBK'))), ('asg', lambda: A(V('vb'), V('va'))), ('cmp', lambda: If(B('==', V('va'), C(3)), A(V('vb'), C(1))))]
    nxt = [('none', None), ('y0', lambda: A(V('Y'), C(0))), ('x1', lambda: A(V('X'), C(1))), ('va3', lambda: A(V('va'), C(3))), ('ld0', lambda: Raw('load', C(0))), ('strobe', lambda: Raw('strobe', V('WSYNC')))]
    for (ln, l), (cn, cl), (an, af), (nn, nx) in itertools.product(loads, clob, after, nxt):
        stmts = [l()] + ([cl()] if cl else []) + [l(), af()] + ([nx()] if nx else [])
        yield mk('hw/look/%s/%s/%s/%s' % (ln, cn, an, nn), stmts)
        if cn != 'none' and nn in ('y0', 'none'):
            yield mk('hw/look-if/%s/%s/%s/%s' % (ln, cn, an, nn), [If(B('==', Deref('INPT4'), C(3)), Block(stmts))])
    # hardware statements in code that is jumped over: dead branches of constant conditions, goto, break, early return - they must
    # not be executed (a jump whose target seems to follow "nothing" must stay when what it skips is an asm / hardware line)
    for (t1, f1) in H:
        for (t2, f2) in [(t, f) for t, f in H if t in ('asm_nop', 'asm_wsync', 'strobe', 'ld_hw', 'cs3')] if True else []:
            base = 'hw/dead/%s|%s' % (t1, t2)
            if tier == 'quick' and not stable_pick(base, 100, 50): continue
            yield mk(base + '/if0', [If(C(0), Block([f1(), f2()])), A(V('vb'), C(1))])
            yield mk(base + '/if0-bare', [If(C(0), f1(), bare=True), f2()])
            yield mk(base + '/if1-else', [If(C(1), A(V('vb'), C(1)), Block([f1(), f2()])), f2()])
            yield mk(base + '/goto', [Goto('done'), f1(), f2(), Label('done', A(V('vb'), C(1)))])
            yield mk(base + '/goto-hw-target', [Goto('done'), f1(), Label('done', f2())])
            yield mk(base + '/while0', [While(C(0), Block([f1(), f2()])), f2()])
            yield mk(base + '/break', [A(V('vb'), C(2)), While(V('vb'), Block([ExprS(Inc('--', False, V('vb'))), Break(), f1()])), f2()])
            yield mk(base + '/switch', [Switch(V('va'), [(1, [Break(), f1()]), (2, [f2(), Break()]), (None, [Break(), f1()])]), f2()])
            yield mk(base + '/return', [If(V('va'), Block([f2(), Return()])), f1()])
            yield mk(base + '/varcond', [If(V('va'), f1(), bare=True), f2()])
            yield mk(base + '/varcond-else', [If(V('va'), f1(), f2(), bare=True)])
            yield mk(base + '/inline-dead', [ExprS(Call('hwf', [])), f2()], funcs=[Func('hwf', None, [], Block([If(C(0), Block([f1()])), Return(), f1()]), inline=True)])
    for (t1, f1), (t2, f2) in itertools.product(H, H):
        pid = 'hw/if/%s|%s' % (t1, t2)
        if tier == 'quick' and not stable_pick(pid, 100, 40): continue
        yield mk(pid, [If(B('==', Deref('INPT4'), C(3)), Block([f1(), f2(), A(V('vb'), Index('arr', V('X')))]), f2())])
        yield mk(pid + '/loop', [For(Assign(V('X'), '=', C(0)), B('<', V('X'), C(2)), Inc('++', False, V('X')), Block([f1(), f2()]))])
        yield mk(pid + '/inl', [ExprS(Call('hwf', [])), A(V('va'), V('vb')), ExprS(Call('hwf', []))], funcs=[Func('hwf', None, [], Block([f1(), f2()]), inline=True)])
        yield mk(pid + '/fn', [ExprS(Call('hwf', [])), ExprS(Call('hwf', []))], funcs=[Func('hwf', None, [], Block([f1(), f2()]))])


def csleep_programs():
    for n in range(0, 13):
        yield ('cs/%d' % n, [n])
    for a, b in itertools.product(range(2, 11), range(2, 11)):
        yield ('cs/%d+%d' % (a, b), [a, b])
    for a, b, c in itertools.product((2, 3, 5, 7, 10), repeat=3):
        yield ('cs/%d+%d+%d' % (a, b, c), [a, b, c])


def check_csleep(rep, tier, stats, samples):
    """strobe; csleep(a); csleep(b)..; strobe  -> cycles between the two strobes == 3 + sum, registers/memory unchanged (solver)"""
    reqs = []
    meta = {}
    for pid, ns in csleep_programs():
        for wrap in ('main', 'inline'):
            body = ''.join('csleep(%d); ' % n for n in ns)
            if wrap == 'main': src = HW_PRE + 'unsigned char va;\nvoid main() { strobe(WSYNC); %sstrobe(WSYNC); }\n' % body
            else: src = HW_PRE + 'unsigned char va;\ninline void w() { %s}\nvoid main() { strobe(WSYNC); w(); strobe(WSYNC); }\n' % body
            for lvl in ('-O0', '-O1', '-O2', '-O3'):
                rid = '%s/%s@%s' % (pid, wrap, lvl)
                reqs.append((rid, [lvl], src)); meta[rid] = (ns, src, lvl)
    R = common.compile_many(reqs)
    for rid, c in R.items():
        ns, src, lvl = meta[rid]
        stats['csleep_programs'] += 1
        legal = all(2 <= n <= 10 for n in ns)
        if c.status != 'ok':
            if c.status == 'err' and not legal: stats['csleep_rejected_ok'] += 1
            elif c.status == 'err': rep.violation('csleep-rejected:' + rid, 'csleep(%s) rejected: %s' % (ns, c.msg), dict(kind='csleep', source=src, args=[lvl], msg=c.msg))
            else: stats['csleep_crash'] += 1
            continue
        if not legal:
            rep.violation('csleep-accepted:' + rid, 'csleep with unsupported value %s accepted' % ns, dict(kind='csleep', source=src, args=[lvl])); continue
        try:
            S = Session()
            v = S.variant(c, hw=set(HW_ADDRS))
            outs, hits, m = S.run(v)
            assert len(outs) == 1 and not hits
            st = outs[0]
            ws = [e for e in st.events if e[0] == 'W' and e[1] == 0x02]
            ok = len(ws) == 2 and ws[1][3] - ws[0][3] == 3 + sum(ns)
            if not ok:
                rep.violation('csleep-cycles:' + rid, 'csleep %s at %s: %s cycles between the strobes, expected %d' % (ns, lvl, (ws[1][3] - ws[0][3] - 3) if len(ws) == 2 else 'n/a', sum(ns)),
                              dict(kind='csleep', source=src, args=[lvl], code=c.funcs['main']['lines']))
                continue
            # identity on A, X, Y, S and every memory byte: one query over all states
            k = z3.BitVec('k', 16)
            diff = z3.Or(bv8(st.A) != z3.BitVec('A0', 8), bv8(st.X) != z3.BitVec('X0', 8), bv8(st.Y) != z3.BitVec('Y0', 8), z3.And(z3.Or(z3.ULT(k, 0x100), z3.UGT(k, 0x1ff)), z3.Select(st.M.arr, k) != z3.Select(S.M0, k)))
            mdl = S.check(st.pcond + [diff] + ([] if st.S == 0xff else [True]))
            stats['csleep_queries'] += 1
            if mdl is not None or st.S != 0xff:
                rep.violation('csleep-effect:' + rid, 'csleep %s at %s changes a register or memory' % (ns, lvl), dict(kind='csleep', source=src, args=[lvl], code=c.funcs['main']['lines']))
                continue
            stats['csleep_decided'] += 1
            if len(samples) < 3:
                samples.append(dict(program=src, level=lvl, verdict='cycles between strobes = 3 + %d for the only path; A,X,Y,S,memory unchanged for all states (unsat)' % sum(ns), code=c.funcs['main']['lines']))
        except (Unsupported, AsmError, AssertionError) as e:
            rep.inconc('csleep %s: %r' % (rid, e))


CS_GLOBALS = 'unsigned char va, vb, vc;\nunsigned char arr[4];\nshort wa, count;\nshort warr[4];\nchar last;\nchar emit(short v) { last = v; return last; }\n'
CS_STMTS = [('emit-postdec', 'emit(count--);'), ('warr-computed', 'warr[vb & 3] = wa;'), ('warr-X+1', 'warr[X + 1] = wa;'), ('add', 'va = vb + 1;'), ('x-ld', 'X = va;'), ('w-inc', 'wa++;'), ('if', 'if (va) vb = 1;'),
            ('ax-ld', 'va = arr[X];'), ('ay-st', 'arr[Y] = va;'), ('call', 'vb = emit(wa);'), ('tern', 'va = vb ? 1 : 2;'), ('load', 'load(va);'), ('store', 'store(vb);'), ('postinc-use', 'va = arr[vb++];'),
            ('w-postdec-idx', 'va = arr[count--];'), ('call-postinc', 'emit(wa++);'), ('cmp16', 'if (wa < count) vc = 1;')]


def check_csleep_after(rep, tier, stats, samples):
    """strobe; S; csleep(k); strobe  against  strobe; S; strobe  (and the csleep-first order): on every pair of paths that one initial state
    can take through both programs (joint path condition satisfiable - solver), the cycles between the strobes differ by exactly k.
    S ends (or starts) with stack traffic, flag tests, calls: the instructions a peephole rule could pair with those of the csleep."""
    ks = (2, 3, 4, 5, 6, 7, 8, 9, 10) if tier == 'thorough' else (2, 3, 7, 10)
    reqs, meta = [], {}
    for (sn, st), order, lvl in itertools.product(CS_STMTS, ('after', 'before', 'twice'), ('-O0', '-O1', '-O2', '-O3')):
        base = 'cs-rel/%s/%s@%s' % (sn, order, lvl)
        mk = lambda body: HW_PRE + CS_GLOBALS + 'void main() { strobe(WSYNC); %s strobe(WSYNC); }\n' % body
        reqs.append((base + '/ref', [lvl], mk(st)))
        for k in ks:
            if tier == 'quick' and k != 7 and not stable_pick(base + str(k), 100, 50): continue
            cs = 'csleep(%d);' % k
            src = mk({'after': st + ' ' + cs, 'before': cs + ' ' + st, 'twice': st + ' ' + cs + ' ' + cs}[order])
            rid = '%s/k%d' % (base, k)
            reqs.append((rid, [lvl], src)); meta[rid] = (base + '/ref', k * (2 if order == 'twice' else 1), src, lvl)
    R = common.compile_many(reqs)
    for rid, (ref, want, src, lvl) in sorted(meta.items()):
        c, c0 = R[rid], R[ref]
        stats['csrel_programs'] += 1
        if c.status != 'ok' or c0.status != 'ok':
            if c.status != c0.status: rep.violation('csrel-status:' + rid, 'statement accepted without the csleep and not with it (or the reverse): %s / %s' % (c0.status, c.status), dict(kind='csleep', source=src, args=[lvl], msg=c.msg))
            continue
        try:
            S = Session()
            v0, v1 = S.variant(c0, hw=set(HW_ADDRS)), S.variant(c, hw=set(HW_ADDRS))
            o0, h0, _ = S.run(v0); o1, h1, _ = S.run(v1)
            if h0 or h1: raise Unsupported('bound hit')
            def span(st):
                ws = [e for e in st.events if e[0] == 'W' and e[1] == 0x02]
                return ws[-1][3] - ws[0][3] if len(ws) >= 2 else None
            bad = None
            for p0, p1 in itertools.product(o0, o1):
                stats['csrel_queries'] += 1
                mdl = S.check(list(p0.pcond) + list(p1.pcond))
                if mdl is None: continue
                stats['csrel_path_pairs'] += 1
                d0, d1 = span(p0), span(p1)
                if d0 is None or d1 is None or d1 - d0 != want: bad = (d0, d1); break
            if bad:
                rep.violation('csrel-cycles:' + rid, 'csleep total %d next to `%s` at %s adds %s cycles between the strobes' % (want, rid.split('/')[1], lvl, (bad[1] - bad[0]) if None not in bad else 'n/a'),
                              dict(kind='csleep', source=src, args=[lvl], code=c.funcs['main']['lines'], ref_code=c0.funcs['main']['lines']))
                continue
            stats['csrel_decided'] += 1
            if len(samples) < 5 and 'emit-postdec/after' in rid and lvl == '-O1':
                samples.append(dict(program=src, level=lvl, verdict='every jointly feasible path pair: cycles between strobes = reference + %d' % want, code=c.funcs['main']['lines']))
        except (Unsupported, AsmError, AssertionError) as e:
            rep.inconc('csrel %s: %r' % (rid, e))


def g_transparent(tier):
    """S; csleep(k); T  against  S; T  where T tests what S computed (zero tests, sign tests, register reuse): a csleep changes nothing
    but time, so the two programs are equivalent for all inputs - whatever the generator remembers across the csleep"""
    import families3
    class Pair:
        def __init__(self, pid, a, b): self.pid, self.a, self.b = pid, a, b
        def c(self): return self.a.c()
        def gnames(self): return self.a.gnames()
    X = V('X')
    tests = [('if', lambda z: If(V(z), A(V('sc'), C(1)), A(V('sc'), C(2)))), ('if0', lambda z: If(B('==', V(z), C(0)), A(V('sc'), C(1)))), ('while', lambda z: While(V(z), Block([A(V(z), C(0)), A(V('sc'), C(1))]))),
             ('tern', lambda z: A(V('sc'), Tern(V(z), C(1), C(2)))), ('copy', lambda z: A(V('sb'), V(z))), ('add', lambda z: A(V('sb'), B('+', V(z), C(1))))]
    for (sn, st, z), k, (tn, t) in itertools.product(families3.flag_setters(), (2, 3, 4, 5, 6, 7, 8, 9, 10), tests):
        if sn == 'va=f': continue
        if z in ('wa', 'ha') and tn in ('copy', 'add'): continue
        pid = 'cs-transparent/%s/%d/%s' % (sn, k, tn)
        if tier == 'quick' and k not in (7, 10) and not stable_pick(pid, 100, 25): continue
        mk = lambda with_cs: mkprog(pid, [st()] + ([Raw('csleep', k)] if with_cs else []) + [t(z)], pre=HW_PRE)
        yield Pair(pid, mk(False), mk(True))
        if tn == 'if':
            mk2 = lambda with_cs: mkprog(pid + '/twice', [st()] + ([Raw('csleep', k), Raw('csleep', k)] if with_cs else []) + [t(z)], pre=HW_PRE)
            yield Pair(pid + '/twice', mk2(False), mk2(True))


def run(tier):
    rep = common.Report('C18', tier, 'translation_validation')
    common.build_driver()
    stats, samples = collections.Counter(), []
    check_csleep(rep, tier, stats, samples)
    check_csleep_after(rep, tier, stats, samples)
    progs = list(g_hw(tier))
    variants = [('O0', ['-O0'], None), ('O1', ['-O1'], None), ('O2', ['-O2'], None), ('O3', ['-O3'], None)]
    st2, smp, results = runner.relational(rep, progs, variants, 'O0', opts=dict(events=True, hw=sorted(HW_ADDRS)))
    tstats = collections.Counter()
    for lvl in (['-O1'], ['-O0']):
        st3, smp3, _ = runner.relational(rep, list(g_transparent(tier)), [('without', [], None), ('with-csleep', [], lambda p: p.b.c())], 'without', args_base=lvl, opts=dict(hw=sorted(HW_ADDRS)), reject_is_violation=True)
        for k2 in ('accepted', 'decided', 'queries', 'variants', 'identical_by_text', 'disagreements_checked'): tstats[k2] += st3[k2]
        tstats['solver_s'] += st3['solver_s']
    stats['transparent_programs'] = tstats['accepted']; stats['transparent_decided'] = tstats['decided']; stats['transparent_queries'] = tstats['queries']
    rep.cov = dict(programs=st2['accepted'] + stats['csleep_decided'] + stats['csrel_decided'], disagreements_checked=st2['disagreements_checked'], samples=samples + smp[:4],
                   csleep=dict(stats), hw_programs=st2['accepted'], variant_pairs=st2['variants'], identical_by_text=st2['identical_by_text'],
                   decided_by_solver=st2['decided'], unsupported=st2['unsupported'], queries=st2['queries'] + stats['csleep_queries'] + stats['csrel_queries'], solver_s=round(st2['solver_s'], 1),
                   bounds=dict(csleep='all 1-, 2- and selected 3-statement csleep sequences, arguments 0..12, in main and in an inline function, -O0..-O3; relational: 17 statements before/after csleep(k) (k=2..10 thorough; 7 and a stable half of 2,3,10 quick) and before two of them, against the same program without the csleep, every jointly feasible path pair; transparency: flag-setting statement / csleep(k) k=2..10 / test of the value, against the same program without the csleep, final state for all inputs, -O0 and -O1',
                               events='reads/writes of TIA addresses, NOP executions; compared as ordered (kind, address, value) sequences on every path'), stats=dict(st2))
    rep.assumptions = ['as C02', 'volatile events = accesses to the hardware addresses WSYNC/COLUBK/INPT4/DUMMY and NOP executions; hardware registers are not memory',
                       'N/Z flags are not register values in the sense of the property (csleep(7) uses PLA)', 'cycle table from the 6502 data sheet, zero-page DUMMY, no page crossing inside a csleep sequence']
    return rep.finish()

"""Development-time tool: run the checks against every seeded change (scratch worktrees, never /repo's working tree) and record the
outcome in seeded/<id>/meta.json.  usage: run_matrix.py [-j N] [id-prefix ...]"""
import os, sys, json, glob, re, subprocess, concurrent.futures
VERIF = os.path.dirname(os.path.dirname(os.path.abspath(__file__)))
EXTRA = {'C01': ['C02', 'C03'], 'C02': ['C01'], 'C03': ['C04'], 'C04': ['C03'], 'C13': ['C04', 'C14'], 'C14': ['C13'], 'C15': ['C01'], 'C18': ['C02'], 'C10': ['C01']}      # (the full matrix of waves 1-3 also ran C15/C03/C07/C14 where relevant)
def one(name):
    prop = name.split('_')[0]
    pids = [prop] + [p for p in EXTRA.get(prop, []) if p != prop]
    r = subprocess.run([os.path.join(VERIF, 'check'), 'selftest', os.path.join(VERIF, 'seeded', name)] + pids, capture_output=True, text=True)
    res = {}
    for l in r.stdout.split('\n'):
        m = re.match(r'%s (C\d+) exit (\d+) violations (\d+)\s*(.*)' % re.escape(name), l)
        if m: res[m.group(1)] = dict(exit=int(m.group(2)), violations=int(m.group(3)), first=m.group(4).strip()[:240])
    mj = os.path.join(VERIF, 'seeded', name, 'meta.json')
    meta = json.load(open(mj))
    meta.setdefault('checks_run', {})['results'] = res
    meta['checks_run']['tool'] = './check selftest seeded/%s <ID>... (patch applied to a scratch worktree, VERIF_REPO points the checks at it)' % name
    meta['caught_by'] = sorted(k for k, v in res.items() if v['exit'] == 1)
    json.dump(meta, open(mj, 'w'), indent=1)
    return name, res
def main(argv):
    j = 3
    if argv[:1] == ['-j']: j = int(argv[1]); argv = argv[2:]
    names = sorted(os.path.basename(os.path.dirname(p)) for p in glob.glob(os.path.join(VERIF, 'seeded', '*', 'meta.json')))
    if argv: names = [n for n in names if any(n.startswith(a) for a in argv)]
    with concurrent.futures.ThreadPoolExecutor(j) as ex:
        for name, res in ex.map(one, names):
            print(name, ' '.join('%s:%d/%d' % (k, v['exit'], v['violations']) for k, v in res.items()), flush=True)
    subprocess.run([sys.executable, os.path.join(VERIF, 'lib', 'mkmatrix.py')])
main(sys.argv[1:])

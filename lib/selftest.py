"""Run checks against a seeded change: ./check selftest <dir-with-patch.diff> <PID>... [--tier quick]
Applies the patch to a scratch worktree of /repo (outside /repo and /verif), points the checks at it (VERIF_REPO), removes it afterwards.
Never touches /repo's working tree."""
import sys, os, subprocess, tempfile, shutil, json, time

def main(argv):
    tier = 'quick'
    if '--tier' in argv:
        k = argv.index('--tier'); tier = argv[k + 1]; argv = argv[:k] + argv[k + 2:]
    d = argv[0]; pids = [a for a in argv[1:] if not a.startswith('--')]
    d = os.path.abspath(d); patch = os.path.join(d, 'patch.diff') if os.path.isdir(d) else d
    wt = tempfile.mkdtemp(prefix='cc6502_mut_', dir='/tmp')
    os.rmdir(wt)
    subprocess.run(['git', '-C', '/repo', 'worktree', 'add', '-f', wt, 'HEAD', '-q'], check=True)
    try:
        r = subprocess.run(['git', '-C', wt, 'apply', patch], capture_output=True, text=True)
        if r.returncode != 0:
            r = subprocess.run(['git', '-C', wt, 'apply', '--3way', patch], capture_output=True, text=True)
            if r.returncode != 0:
                print('PATCH DOES NOT APPLY', r.stderr[:500]); return 3
        res = {}
        for pid in pids:
            t = time.time()
            env = dict(os.environ, VERIF_REPO=wt, VERIF_EVIDENCE_DIR=os.path.join(wt, '.evidence'))
            p = subprocess.run([os.path.join(os.path.dirname(os.path.dirname(os.path.abspath(__file__))), 'check'), pid, '--tier', tier], capture_output=True, text=True, env=env)
            viol = [l for l in p.stdout.split('\n') if l.startswith('VIOLATION')]
            res[pid] = dict(exit=p.returncode, violations=len(viol), first=(p.stdout.split('\n')[[i for i, l in enumerate(p.stdout.split('\n')) if l.startswith('VIOLATION')][0] + 1][:300] if viol else ''),
                            wall=round(time.time() - t, 1), tail=p.stdout[-300:] if p.returncode not in (0, 1) else '')
            print(os.path.basename(d.rstrip('/')), pid, 'exit', p.returncode, 'violations', len(viol), res[pid]['first'][:200], res[pid]['tail'])
        return 0
    finally:
        subprocess.run(['git', '-C', '/repo', 'worktree', 'remove', '--force', wt])
        shutil.rmtree(wt, ignore_errors=True)

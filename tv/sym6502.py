"""sym6502: independent assembler front end + symbolic/concrete 6502 executor for the text cc6502 emits.

Values are Python ints when concrete and z3 terms otherwise (constant folding for free); memory is one SMT
array BitVec16->BitVec8 plus a cache of cells whose content is known since the last symbolic-address store.
The same step function runs concretely (all ints) for counterexample replay.
"""
import re, z3

# ----------------------------------------------------------------------------- data sheet
IMPLIED = {'TAX': 2, 'TAY': 2, 'TXA': 2, 'TYA': 2, 'TSX': 2, 'TXS': 2, 'INX': 2, 'INY': 2, 'DEX': 2, 'DEY': 2, 'CLC': 2, 'SEC': 2,
           'CLI': 2, 'SEI': 2, 'CLD': 2, 'SED': 2, 'CLV': 2, 'PHA': 3, 'PLA': 4, 'PHP': 3, 'PLP': 4, 'RTS': 6, 'RTI': 6, 'NOP': 2, 'BRK': 7}
BRANCHES = {'BEQ', 'BNE', 'BCC', 'BCS', 'BMI', 'BPL', 'BVC', 'BVS'}
_LD = {'imm': 2, 'zp': 3, 'zpx': 4, 'abs': 4, 'abx': 4, 'aby': 4, 'izx': 6, 'izy': 5}
_RMW = {'zp': 5, 'zpx': 6, 'abs': 6, 'abx': 7}
MODES = {  # mnemonic -> {mode: base cycles}
    'LDA': _LD, 'ADC': _LD, 'SBC': _LD, 'AND': _LD, 'ORA': _LD, 'EOR': _LD, 'CMP': _LD,
    'LDX': {'imm': 2, 'zp': 3, 'zpy': 4, 'abs': 4, 'aby': 4},
    'LDY': {'imm': 2, 'zp': 3, 'zpx': 4, 'abs': 4, 'abx': 4},
    'STA': {'zp': 3, 'zpx': 4, 'abs': 4, 'abx': 5, 'aby': 5, 'izx': 6, 'izy': 6},
    'STX': {'zp': 3, 'zpy': 4, 'abs': 4}, 'STY': {'zp': 3, 'zpx': 4, 'abs': 4},
    'CPX': {'imm': 2, 'zp': 3, 'abs': 4}, 'CPY': {'imm': 2, 'zp': 3, 'abs': 4},
    'INC': _RMW, 'DEC': _RMW,
    'ASL': dict(_RMW, acc=2), 'LSR': dict(_RMW, acc=2), 'ROL': dict(_RMW, acc=2), 'ROR': dict(_RMW, acc=2),
    'BIT': {'zp': 3, 'abs': 4}, 'JMP': {'abs': 3, 'ind': 5}, 'JSR': {'abs': 6},
}
MODE_SIZE = {'imp': 1, 'acc': 1, 'imm': 2, 'zp': 2, 'zpx': 2, 'zpy': 2, 'izx': 2, 'izy': 2, 'rel': 2, 'abs': 3, 'abx': 3, 'aby': 3, 'ind': 3}
STORES = {'STA', 'STX', 'STY'}
RMW_MN = {'INC', 'DEC', 'ASL', 'LSR', 'ROL', 'ROR'}


class AsmError(Exception):
    pass


class Unsupported(Exception):
    pass


class UBPath(Exception):
    """the path indexes an array out of range: undefined in C, excluded (assumption A-idx)"""


def parse_num(s):
    s = s.strip()
    neg = s.startswith('-')
    if neg: s = s[1:]
    if s.startswith('$'): v = int(s[1:], 16)
    elif s.startswith('%'): v = int(s[1:], 2)
    elif s.startswith('0x') or s.startswith('0X'): v = int(s[2:], 16)
    elif re.match(r'\d+$', s): v = int(s)
    else: raise ValueError(s)
    return -v if neg else v


class Ins:
    __slots__ = ('mn', 'mode', 'expr', 'scope', 'raw', 'size', 'cycles', 'tag')
    def __init__(self, mn, mode, expr, scope, raw):
        self.mn, self.mode, self.expr, self.scope, self.raw = mn, mode, expr, scope, raw
        self.size = None; self.cycles = None; self.tag = None
    def __repr__(self): return self.raw.strip()


def eval_expr(e, sym):
    """address expression: ID | NUM | ID+N | (ID+N) | ID-N ; returns int"""
    e = e.strip()
    while e.startswith('(') and e.endswith(')'):
        e = e[1:-1].strip()
    m = re.match(r'^([A-Za-z_.][A-Za-z0-9_.]*|\$[0-9A-Fa-f]+|%[01]+|\d+)\s*(?:([+-])\s*(\$[0-9A-Fa-f]+|\d+))?$', e)
    if not m:
        raise AsmError('cannot evaluate operand expression %r' % e)
    b = m.group(1)
    if re.match(r'[A-Za-z_.]', b):
        if b not in sym:
            raise AsmError('undefined symbol %r' % b)
        v = sym[b]
    else:
        v = parse_num(b)
    if m.group(2):
        n = parse_num(m.group(3))
        v = v + n if m.group(2) == '+' else v - n
    return v


def split_operand(op):
    """-> (kind, expr) kind in imp acc imm immlo immhi mem memx memy izy izx ind"""
    op = op.strip()
    if op == '': return ('imp', None)
    if op in ('A', 'a'): return ('acc', None)
    if op.startswith('#'):
        o = op[1:].strip()
        if o.startswith('<'): return ('immlo', o[1:])
        if o.startswith('>'): return ('immhi', o[1:])
        return ('imm', o)
    m = re.match(r'^\((.*)\)\s*,\s*[Yy]$', op)
    if m: return ('izy', m.group(1))
    m = re.match(r'^\((.*),\s*[Xx]\)$', op)
    if m: return ('izx', m.group(1))
    m = re.match(r'^(.*),\s*([XxYy])$', op)
    if m: return ('memx' if m.group(2) in 'Xx' else 'memy', m.group(1))
    if op.startswith('(') and op.endswith(')') and '+' not in op:
        return ('ind', op[1:-1])
    return ('mem', op)


class Program:
    """Assembled view of the functions of one compilation.
    funcs: ordered dict name -> list of text lines (as written by AssemblyCode::write, cycles off)
    layout: dict symbol -> address (from linker.layout)"""
    def __init__(self, funcs, layout, entry='main', inline_ok=True):
        self.code = []
        self.labels = {}       # (scope, label) -> index ; function name -> index
        self.sym = dict(layout)
        self.entry = entry
        self.func_range = {}
        self.inline_texts = []
        for f, lines in funcs.items():
            start = len(self.code)
            self.labels[f] = start
            for l in lines:
                if l.startswith(';') or l.strip() == '':
                    continue
                if not l[0].isspace():
                    lab = l.strip()
                    if (f, lab) in self.labels:
                        raise AsmError('label %s defined twice in %s' % (lab, f))
                    self.labels[(f, lab)] = len(self.code)
                    continue
                body = l.strip()
                body = body.split(';')[0].strip()
                if not body: continue
                p = body.split(None, 1)
                mn = p[0].upper()
                op = p[1].strip() if len(p) > 1 else ''
                self.code.append(self._ins(mn, op, f, l))
            self.code.append(Ins('RTS', 'imp', None, f, '\tRTS ; (end of function, appended by the linker)'))
            self.code[-1].size = 1; self.code[-1].cycles = 6; self.code[-1].tag = 'end'
            self.func_range[f] = (start, len(self.code))
        # resolve branch / jump targets now: undefined label = does not assemble
        for i in self.code:
            if i.mode in ('rel', 'jmp', 'jsr'):
                i.expr = self._target(i)

    def _ins(self, mn, op, scope, raw):
        if mn in IMPLIED and op == '':
            i = Ins(mn, 'imp', None, scope, raw); i.size = 1; i.cycles = IMPLIED[mn]; return i
        if mn in BRANCHES:
            i = Ins(mn, 'rel', op, scope, raw); i.size = 2; i.cycles = 2; return i
        if mn not in MODES:
            raise Unsupported('mnemonic %s' % mn)
        kind, e = split_operand(op)
        if mn == 'JMP' and kind == 'mem':
            i = Ins(mn, 'jmp', e, scope, raw); i.size = 3; i.cycles = 3; return i
        if mn == 'JSR' and kind == 'mem':
            i = Ins(mn, 'jsr', e, scope, raw); i.size = 3; i.cycles = 6; return i
        if kind in ('imp', 'acc'):
            if 'acc' not in MODES[mn]: raise AsmError('illegal addressing mode: %s' % raw.strip())
            i = Ins(mn, 'acc', None, scope, raw); i.size = 1; i.cycles = 2; return i
        if kind in ('imm', 'immlo', 'immhi'):
            if 'imm' not in MODES[mn]: raise AsmError('illegal addressing mode: %s' % raw.strip())
            v = eval_expr(e, self.sym)
            if kind == 'immlo': v &= 0xff
            elif kind == 'immhi': v = (v >> 8) & 0xff
            elif not -128 <= v <= 255: raise AsmError('immediate out of range: %s' % raw.strip())
            i = Ins(mn, 'imm', v & 0xff, scope, raw); i.size = 2; i.cycles = 2; return i
        a = eval_expr(e, self.sym)
        if not 0 <= a <= 0xffff: raise AsmError('address out of range: %s' % raw.strip())
        zp = a < 0x100
        cand = {'mem': ('zp', 'abs'), 'memx': ('zpx', 'abx'), 'memy': ('zpy', 'aby'), 'izy': ('izy', None), 'izx': ('izx', None), 'ind': (None, 'ind')}[kind]
        mode = None
        if zp and cand[0] and cand[0] in MODES[mn]: mode = cand[0]
        elif cand[1] and cand[1] in MODES[mn]: mode = cand[1]
        if mode is None or (mode in ('izy', 'izx') and not zp):
            raise AsmError('illegal addressing mode: %s' % raw.strip())
        i = Ins(mn, mode, a, scope, raw); i.size = MODE_SIZE[mode]; i.cycles = MODES[mn][mode]
        return i

    def _target(self, i):
        lab = i.expr.strip()
        if (i.scope, lab) in self.labels: return self.labels[(i.scope, lab)]
        if lab in self.labels and isinstance(lab, str) and not lab.startswith('.'): return self.labels[lab]
        raise AsmError('undefined label %r in %s' % (lab, i.scope))

    def func_size(self, f):
        a, b = self.func_range[f]
        return sum(i.size for i in self.code[a:b - 1])

    def branch_displacements(self, f):
        """[(ins, displacement)] for every conditional branch of f with real encodings"""
        a, b = self.func_range[f]
        addr, pos = {}, 0
        for k in range(a, b + 1):
            addr[k] = pos
            if k < b: pos += self.code[k].size
        out = []
        for k in range(a, b):
            i = self.code[k]
            if i.mode == 'rel':
                out.append((i, addr[i.expr] - (addr[k] + 2)))
        return out


# ----------------------------------------------------------------------------- values
def is_c(v): return isinstance(v, int)

def bv8(v): return z3.BitVecVal(v & 0xff, 8) if isinstance(v, int) else v
def bv16(v): return z3.BitVecVal(v & 0xffff, 16) if isinstance(v, int) else v
def zb(b): return z3.BoolVal(b) if isinstance(b, bool) else b

def simp(t):
    t = z3.simplify(t)
    if z3.is_bv_value(t): return t.as_long()
    if z3.is_true(t): return True
    if z3.is_false(t): return False
    return t

def add8(a, b):
    if is_c(a) and is_c(b): return (a + b) & 0xff
    return simp(bv8(a) + bv8(b))

def bit(v, n):
    if is_c(v): return bool((v >> n) & 1)
    return simp(z3.Extract(n, n, v) == 1)

def eq0(v):
    if is_c(v): return v == 0
    return simp(v == 0)

def b_not(b):
    if isinstance(b, bool): return not b
    return simp(z3.Not(b))

def b_ite8(c, a, b):
    if isinstance(c, bool): return a if c else b
    return simp(z3.If(c, bv8(a), bv8(b)))

def zext16(v):
    if is_c(v): return v & 0xff
    return z3.ZeroExt(8, v)

def add16(a, b):
    if is_c(a) and is_c(b): return (a + b) & 0xffff
    return simp(bv16(a) + bv16(b))


class Mem:
    """symbolic: z3 array + cache; concrete: dict over a default function"""
    def __init__(self, arr=None, conc=None):
        self.arr = arr
        self.conc = conc         # dict addr->int when concrete mode
        self.cache = {}
    def clone(self):
        m = Mem(self.arr, None if self.conc is None else dict(self.conc)); m.cache = dict(self.cache); return m
    def load(self, a):
        if self.conc is not None:
            if not is_c(a): raise Unsupported('symbolic address in concrete mode')
            return self.conc.get(a & 0xffff, 0)
        if is_c(a):
            a &= 0xffff
            if a in self.cache: return self.cache[a]
            v = simp(z3.Select(self.arr, bv16(a))); self.cache[a] = v; return v
        return simp(z3.Select(self.arr, a))
    def store(self, a, v):
        if self.conc is not None:
            self.conc[a & 0xffff] = v & 0xff; return
        if is_c(a):
            a &= 0xffff
            self.arr = z3.Store(self.arr, bv16(a), bv8(v)); self.cache[a] = v
        else:
            self.arr = z3.Store(self.arr, a, bv8(v)); self.cache = {}


class State:
    def __init__(self):
        self.A = self.X = self.Y = 0
        self.nz = 0              # value that last set N/Z (N = bit7, Z = ==0) unless nflag/zflag override
        self.N = None; self.Z = None    # explicit overrides (after CMP etc. both derive from nz anyway)
        self.C = False; self.V = False
        self.S = 0xff
        self.M = None
        self.pc = 0
        self.pcond = []
        self.rs = []             # return stack (instruction indices)
        self.steps = 0; self.back = 0; self.cycles = 0
        self.events = []         # volatile events (kind, addr, value)
        self.faults = []         # split-port faults: list of (cond, text)
        self.done = False; self.ret_a = None; self.pstk = []; self.cyc0 = 0
    def clone(self):
        s = State.__new__(State); s.__dict__ = dict(self.__dict__)
        s.M = self.M.clone(); s.pcond = list(self.pcond); s.rs = list(self.rs); s.events = list(self.events); s.faults = list(self.faults)
        return s
    def flagN(self): return bit(self.nz, 7) if self.N is None else self.N
    def flagZ(self): return eq0(self.nz) if self.Z is None else self.Z
    def setnz(self, v): self.nz = v; self.N = None; self.Z = None


def sym_state(prefix=''):
    s = State()
    s.A = z3.BitVec(prefix + 'A0', 8); s.X = z3.BitVec(prefix + 'X0', 8); s.Y = z3.BitVec(prefix + 'Y0', 8)
    s.N = z3.Bool(prefix + 'N0'); s.Z = z3.Bool(prefix + 'Z0'); s.C = z3.Bool(prefix + 'C0'); s.V = z3.Bool(prefix + 'V0')
    s.M = Mem(arr=z3.Array(prefix + 'M0', z3.BitVecSort(16), z3.BitVecSort(8)))
    return s


def conc_state(regs, mem):
    s = State()
    s.A, s.X, s.Y = regs.get('A', 0), regs.get('X', 0), regs.get('Y', 0)
    s.N, s.Z, s.C, s.V = regs.get('N', False), regs.get('Z', False), regs.get('C', False), regs.get('V', False)
    s.M = Mem(conc=dict(mem))
    return s


class Machine:
    """Executes a Program. hw: set/predicate of addresses whose accesses are volatile events; ports: split-port model."""
    def __init__(self, prog, solver=None, hw=None, ports=None, max_back=40, max_steps=4000, max_paths=400):
        self.P = prog; self.sol = solver; self.hw = hw; self.ports = ports
        self.max_back, self.max_steps, self.max_paths = max_back, max_steps, max_paths
        self.queries = 0
        self.bound_hits = []
        self.extents = None      # [(lo, hi_exclusive)] element ranges of named arrays (A-idx); None = unconstrained
        self.ub_paths = 0

    # -- address helpers
    def _ea(self, s, i):
        m = i.mode
        if m in ('zp', 'abs'): return i.expr
        if m in ('zpx', 'zpy', 'abx', 'aby') and self.extents is not None:
            self._in_range(s, i.expr, s.X if m in ('zpx', 'abx') else s.Y)
        if m == 'zpx': return self._zpwrap(i.expr, s.X)
        if m == 'zpy': return self._zpwrap(i.expr, s.Y)
        if m == 'abx': return add16(i.expr, zext16(s.X))
        if m == 'aby': return add16(i.expr, zext16(s.Y))
        if m == 'izy':
            lo = self._rd(s, i.expr, quiet=True); hi = self._rd(s, (i.expr + 1) & 0xff, quiet=True)
            base = (hi << 8 | lo) if (is_c(lo) and is_c(hi)) else z3.Concat(bv8(hi), bv8(lo))
            return add16(base, zext16(s.Y))
        if m == 'izx':
            raise Unsupported('(zp,X) addressing')
        raise Unsupported('mode ' + m)

    def _in_range(self, s, base, idx):
        for lo, hi in self.extents:
            if lo <= base < hi:
                lim = hi - base
                if lim >= 256: return
                if is_c(idx):
                    if idx >= lim: raise UBPath()
                else:
                    s.pcond.append(z3.ULT(idx, z3.BitVecVal(lim, 8)))
                return

    def _zpwrap(self, base, idx):
        if is_c(idx): return (base + idx) & 0xff
        return simp(z3.ZeroExt(8, z3.BitVecVal(base & 0xff, 8) + idx))

    def _in(self, a, lo, hi):
        if is_c(a): return lo <= a <= hi
        return simp(z3.And(z3.UGE(a, bv16(lo)), z3.ULE(a, bv16(hi))))

    def _rd(self, s, a, quiet=False, rmw=False):
        if self.ports:
            a = self.ports.read(self, s, a, rmw)
        v = s.M.load(a)
        if self.hw is not None and not quiet and self._is_hw(a):
            s.events.append(('R', a, None, s.cyc0))
        return v

    def _wr(self, s, a, v, rmw=False):
        if self.ports:
            a = self.ports.write(self, s, a, rmw)
        if self.hw is not None and self._is_hw(a):
            s.events.append(('W', a, v, s.cyc0))
            return        # hardware registers are not memory: writes have no readable effect
        s.M.store(a, v)

    def _is_hw(self, a):
        if is_c(a): return a in self.hw
        return False

    def feasible(self, conds):
        self.queries += 1
        self.sol.push(); self.sol.add(*[zb(c) for c in conds]); r = self.sol.check(); self.sol.pop()
        if r == z3.unknown: raise Unsupported('solver unknown')
        return r == z3.sat

    def step(self, s):
        """returns list of successor states (s itself is reused)"""
        P = self.P
        i = P.code[s.pc]
        s.steps += 1
        s.cyc0 = s.cycles
        s.cycles += i.cycles or 0
        mn = i.mn
        nxt = s.pc + 1
        if i.mode == 'rel':
            c = {'BEQ': lambda: s.flagZ(), 'BNE': lambda: b_not(s.flagZ()), 'BCC': lambda: b_not(s.C), 'BCS': lambda: s.C,
                 'BMI': lambda: s.flagN(), 'BPL': lambda: b_not(s.flagN()), 'BVC': lambda: b_not(s.V), 'BVS': lambda: s.V}[mn]()
            tgt = i.expr
            if isinstance(c, bool):
                self._goto(s, tgt if c else nxt, taken=c); return [s]
            out = []
            if self.feasible(s.pcond + [c]):
                t = s.clone(); t.pcond.append(c); self._goto(t, tgt, True); out.append(t)
            nc = b_not(c)
            if (not out) or self.feasible(s.pcond + [nc]):
                s.pcond.append(nc); s.pc = nxt; out.append(s)
            return out
        if i.mode == 'jmp': self._goto(s, i.expr, True); return [s]
        if i.mode == 'jsr':
            s.rs.append(nxt); s.S = (s.S - 2) & 0xff; s.pc = i.expr; return [s]
        if mn == 'RTS':
            if not s.rs:
                s.done = True; s.ret_a = s.A; return [s]
            s.pc = s.rs.pop(); s.S = (s.S + 2) & 0xff; return [s]
        if mn == 'RTI': raise Unsupported('RTI')
        self.exec_data(s, i)
        s.pc = nxt
        return [s]

    def _goto(self, s, tgt, taken):
        if taken and tgt <= s.pc: s.back += 1
        s.pc = tgt

    def exec_data(self, s, i):
        mn, mode = i.mn, i.mode
        def operand():
            if mode == 'imm': return i.expr
            return self._rd(s, self._ea(s, i))
        if mn == 'LDA': s.A = operand(); s.setnz(s.A)
        elif mn == 'LDX': s.X = operand(); s.setnz(s.X)
        elif mn == 'LDY': s.Y = operand(); s.setnz(s.Y)
        elif mn == 'STA': self._wr(s, self._ea(s, i), s.A)
        elif mn == 'STX': self._wr(s, self._ea(s, i), s.X)
        elif mn == 'STY': self._wr(s, self._ea(s, i), s.Y)
        elif mn == 'TAX': s.X = s.A; s.setnz(s.X)
        elif mn == 'TAY': s.Y = s.A; s.setnz(s.Y)
        elif mn == 'TXA': s.A = s.X; s.setnz(s.A)
        elif mn == 'TYA': s.A = s.Y; s.setnz(s.A)
        elif mn == 'TSX': s.X = s.S; s.setnz(s.X)
        elif mn == 'TXS':
            if not is_c(s.X): raise Unsupported('TXS with symbolic X')
            s.S = s.X
        elif mn in ('ADC', 'SBC'):
            m = operand()
            if mn == 'SBC': m = (m ^ 0xff) if is_c(m) else simp(~m)
            a, c = s.A, s.C
            if is_c(a) and is_c(m) and isinstance(c, bool):
                t = a + m + (1 if c else 0); r = t & 0xff
                s.V = bool((a ^ r) & (m ^ r) & 0x80); s.C = t > 0xff; s.A = r
            else:
                t = z3.ZeroExt(1, bv8(a)) + z3.ZeroExt(1, bv8(m)) + z3.If(zb(c), z3.BitVecVal(1, 9), z3.BitVecVal(0, 9))
                r = simp(z3.Extract(7, 0, t))
                s.V = simp(z3.Extract(7, 7, (bv8(a) ^ bv8(r)) & (bv8(m) ^ bv8(r))) == 1)
                s.C = simp(z3.Extract(8, 8, t) == 1); s.A = r
            s.setnz(s.A)
        elif mn in ('AND', 'ORA', 'EOR'):
            m = operand(); a = s.A
            if is_c(a) and is_c(m): s.A = {'AND': a & m, 'ORA': a | m, 'EOR': a ^ m}[mn]
            else: s.A = simp({'AND': bv8(a) & bv8(m), 'ORA': bv8(a) | bv8(m), 'EOR': bv8(a) ^ bv8(m)}[mn])
            s.setnz(s.A)
        elif mn in ('CMP', 'CPX', 'CPY'):
            r = {'CMP': s.A, 'CPX': s.X, 'CPY': s.Y}[mn]; m = operand()
            if is_c(r) and is_c(m): s.C = r >= m; s.setnz((r - m) & 0xff)
            else: s.C = simp(z3.UGE(bv8(r), bv8(m))); s.setnz(simp(bv8(r) - bv8(m)))
        elif mn == 'BIT':
            m = operand(); s.N = bit(m, 7); s.V = bit(m, 6)
            s.Z = (s.A & m) == 0 if (is_c(m) and is_c(s.A)) else simp((bv8(s.A) & bv8(m)) == 0)
        elif mn in ('INC', 'DEC'):
            a = self._ea(s, i); v = add8(self._rd(s, a, rmw=True), 1 if mn == 'INC' else 255); self._wr(s, a, v, rmw=True); s.setnz(v)
        elif mn in ('INX', 'DEX'): s.X = add8(s.X, 1 if mn == 'INX' else 255); s.setnz(s.X)
        elif mn in ('INY', 'DEY'): s.Y = add8(s.Y, 1 if mn == 'INY' else 255); s.setnz(s.Y)
        elif mn in ('ASL', 'LSR', 'ROL', 'ROR'):
            if mode == 'acc': v = s.A
            else: a = self._ea(s, i); v = self._rd(s, a, rmw=True)
            c = s.C
            if is_c(v) and (isinstance(c, bool) or mn in ('ASL', 'LSR')):
                ci = 1 if c is True else 0
                if mn == 'ASL': nc = bool(v & 0x80); r = (v << 1) & 0xff
                elif mn == 'ROL': nc = bool(v & 0x80); r = ((v << 1) | ci) & 0xff
                elif mn == 'LSR': nc = bool(v & 1); r = v >> 1
                else: nc = bool(v & 1); r = (v >> 1) | (ci << 7)
            else:
                vv = bv8(v); cin = z3.If(zb(c), z3.BitVecVal(1, 8), z3.BitVecVal(0, 8))
                if mn == 'ASL': nc = bit(v, 7); r = simp(vv << 1)
                elif mn == 'ROL': nc = bit(v, 7); r = simp((vv << 1) | cin)
                elif mn == 'LSR': nc = bit(v, 0); r = simp(z3.LShR(vv, 1))
                else: nc = bit(v, 0); r = simp(z3.LShR(vv, 1) | (cin << 7))
            s.C = nc; s.setnz(r)
            if mode == 'acc': s.A = r
            else: self._wr(s, a, r, rmw=True)
        elif mn == 'CLC': s.C = False
        elif mn == 'SEC': s.C = True
        elif mn == 'CLV': s.V = False
        elif mn in ('CLD', 'CLI', 'SEI'): pass
        elif mn == 'SED': raise Unsupported('decimal mode')
        elif mn == 'PHA': s.M.store(0x100 + s.S, s.A); s.S = (s.S - 1) & 0xff
        elif mn == 'PLA': s.S = (s.S + 1) & 0xff; s.A = s.M.load(0x100 + s.S); s.setnz(s.A)
        elif mn == 'PHP':
            s.pstk = s.pstk + [(s.S, s.flagN(), s.flagZ(), s.C, s.V)]; s.S = (s.S - 1) & 0xff
        elif mn == 'PLP':
            s.S = (s.S + 1) & 0xff
            if not s.pstk or s.pstk[-1][0] != s.S: raise Unsupported('PLP of a non-PHP value')
            _, s.N, s.Z, s.C, s.V = s.pstk[-1]; s.pstk = s.pstk[:-1]
        elif mn == 'NOP':
            if self.hw is not None: s.events.append(('N', 0, None, s.cyc0))
        else: raise Unsupported(mn)

    def run(self, s0):
        """explore all paths from s0; returns list of final states (done) ; bound hits recorded"""
        s0.pc = self.P.labels[self.P.entry]
        work, out = [s0], []
        self.bound_hits = []
        while work:
            s = work.pop()
            while True:
                if s.done: out.append(s); break
                if s.steps >= self.max_steps or s.back > self.max_back:
                    self.bound_hits.append(s); break
                try:
                    nx = self.step(s)
                except UBPath:
                    self.ub_paths += 1; break
                if len(nx) == 1: s = nx[0]; continue
                if len(out) + len(work) + len(nx) > self.max_paths:
                    raise Unsupported('path explosion (> %d paths)' % self.max_paths)
                work.extend(nx[1:]); s = nx[0]
        return out

"""Common set-up for E-MIR checks: load the dump of the current tree, extra library models, helpers."""
import os, sys, re, time, json
import z3
sys.path.insert(0, os.path.join(os.path.dirname(os.path.abspath(__file__)), '..', 'lib'))
import common, mirdump
import engine
from engine import *


def load(overflow_checks='on'):
    return Mir(mirdump.mir_path(overflow_checks))


def rule_numbers():
    """numbering of the pest-generated Rule enum, printed by the driver built from the same tree"""
    r = common.run_requests(['R\trules'])
    return r['rules']['rules']


def install_rule_enum():
    nums = rule_numbers()
    names = ['rule%d' % i for i in range(256)]
    for n, d in nums.items(): names[d] = n
    ENUMS['Rule'] = names
    engine.ENUMS['Rule'] = names
    return nums


def S(v):
    while isinstance(v, Ref): v = v.cell.v
    return v


def ret(p, fr, dcell, r, v):
    dcell.v = v; fr.bb = r; return [p]


def opt_sym(cond_some, val):
    a = Adt('Option', z3.If(cond_some, z3.BitVecVal(1, 8), z3.BitVecVal(0, 8)))
    a.fields[('Some', 0)] = Cell(val)
    return a


def opt(val):
    if val is None: return Adt('Option', 0)
    a = Adt('Option', 1); a.fields[('Some', 0)] = Cell(val); return a


def discr_term(a, width=8):
    d = a.discr
    return z3.BitVecVal(d, width) if isinstance(d, int) else d


def m_checked(op):
    def f(i, p, fr, c, a, d, r):
        x, y = a[0], (a[1] if len(a) > 1 else None)
        n = x.size()
        if op == 'neg':
            ovf = x == z3.BitVecVal(1 << (n - 1), n); res = -x
        elif op == 'div':
            ovf = z3.Or(y == 0, z3.And(x == z3.BitVecVal(1 << (n - 1), n), y == z3.BitVecVal(-1, n))); res = x / y
        else:
            ex, ey = z3.SignExt(n, x), z3.SignExt(n, y)
            full = {'add': ex + ey, 'sub': ex - ey, 'mul': ex * ey}[op]
            res = z3.Extract(n - 1, 0, full); ovf = z3.SignExt(n, res) != full
        return ret(p, fr, d, r, opt_sym(z3.Not(ovf), res))
    return f


def m_checked_shift(op):
    def f(i, p, fr, c, a, d, r):
        x, y = a[0], a[1]; n = x.size()
        yy = z3.ZeroExt(n - y.size(), y) if y.size() < n else (z3.Extract(n - 1, 0, y) if y.size() > n else y)
        res = (x << yy) if op == 'shl' else (x >> yy)           # >> on i32 is arithmetic
        return ret(p, fr, d, r, opt_sym(z3.ULT(y, z3.BitVecVal(n, y.size())), res))
    return f


def m_wrapping(op):
    def f(i, p, fr, c, a, d, r):
        x = a[0]; y = a[1] if len(a) > 1 else None; n = x.size()
        if op in ('shl', 'shr'):
            m = z3.BitVecVal(n - 1, y.size()) & y
            yy = z3.ZeroExt(n - m.size(), m) if m.size() < n else (z3.Extract(n - 1, 0, m) if m.size() > n else m)
            return ret(p, fr, d, r, (x << yy) if op == 'shl' else (x >> yy))
        return ret(p, fr, d, r, {'add': lambda: x + y, 'sub': lambda: x - y, 'mul': lambda: x * y, 'neg': lambda: -x}[op]())
    return f


def m_ok_or_else(i, p, fr, c, a, d, r):
    o = S(a[0])
    res = Adt('Result', z3.If(discr_term(o) == 1, z3.BitVecVal(0, 8), z3.BitVecVal(1, 8)) if not isinstance(o.discr, int) else (0 if o.discr == 1 else 1))
    res.fields[('Ok', 0)] = o.fields.get(('Some', 0), Cell(None))
    res.fields[('Err', 0)] = Cell(Opaque('error', 'ok_or_else'))
    p.events.append(('ok_or_else-closure', []))
    return ret(p, fr, d, r, res)


def m_range_contains(i, p, fr, c, a, d, r):
    rg, x = S(a[0]), S(a[1])
    lo, hi = rg.fields[('', 0)].v, rg.fields[('', 1)].v
    return ret(p, fr, d, r, z3.And(lo <= x, x < hi))


def m_try_from_i64_i32(i, p, fr, c, a, d, r):
    x = a[0]
    fits = z3.SignExt(32, z3.Extract(31, 0, x)) == x
    res = Adt('Result', z3.If(fits, z3.BitVecVal(0, 8), z3.BitVecVal(1, 8)))
    res.fields[('Ok', 0)] = Cell(z3.Extract(31, 0, x)); res.fields[('Err', 0)] = Cell(Opaque('TryFromIntError'))
    return ret(p, fr, d, r, res)


def m_map_err(i, p, fr, c, a, d, r):
    x = S(a[0])
    res = Adt('Result', x.discr)
    res.fields[('Ok', 0)] = x.fields.get(('Ok', 0), Cell(None)); res.fields[('Err', 0)] = Cell(Opaque('error', 'map_err'))
    return ret(p, fr, d, r, res)


def m_false(i, p, fr, c, a, d, r): return ret(p, fr, d, r, z3.BoolVal(False))
def m_unit(i, p, fr, c, a, d, r): return ret(p, fr, d, r, Opaque('unit'))


LIB = dict(GENERIC)
LIB.update({
    r'core::num::<impl i32>::checked_add$': m_checked('add'), r'core::num::<impl i32>::checked_sub$': m_checked('sub'),
    r'core::num::<impl i32>::checked_mul$': m_checked('mul'), r'core::num::<impl i32>::checked_div$': m_checked('div'),
    r'core::num::<impl i32>::checked_neg$': m_checked('neg'),
    r'core::num::<impl i32>::checked_shl$': m_checked_shift('shl'), r'core::num::<impl i32>::checked_shr$': m_checked_shift('shr'),
    r'core::num::<impl i32>::wrapping_shl$': m_wrapping('shl'), r'core::num::<impl i32>::wrapping_shr$': m_wrapping('shr'),
    r'core::num::<impl i32>::wrapping_add$': m_wrapping('add'), r'core::num::<impl i32>::wrapping_sub$': m_wrapping('sub'),
    r'core::num::<impl i32>::wrapping_mul$': m_wrapping('mul'), r'core::num::<impl i32>::wrapping_neg$': m_wrapping('neg'),
    r'^Option::<.*>::ok_or_else::<': m_ok_or_else,
    r'^std::ops::Range::<i32>::contains::<i32>$': m_range_contains,
    r'^<i32 as TryFrom<i64>>::try_from$': m_try_from_i64_i32,
    r'^Result::<.*>::map_err::<': m_map_err,
    r'^<Level as PartialOrd<LevelFilter>>::le$': m_false,
    r'^log::__private_api::': m_unit,
})


def models_of(path, ctx, vars_, n=3):
    """up to n models of the path condition projected on vars_"""
    s = z3.Solver(); s.add(*ctx.constraints); s.add(*path.pc)
    out = []
    while len(out) < n and s.check() == z3.sat:
        m = s.model(); vals = [m.eval(v, model_completion=True) for v in vars_]; out.append(vals)
        s.add(z3.Or(*[v != x for v, x in zip(vars_, vals)]))
    return out

claim('C02', 'translation_validation',
      'For every program of the enumerated families (statement pairs/triples built around every peephole rule, plus the expression/condition/control/call families) the code emitted by the real compiler at -O1/-O2/-O3 is proved equivalent to the -O0 code for EVERY initial memory/register/flag state by z3 over a symbolic 6502 execution; models are replayed concretely before being reported. The program dimension is an enumerated bound, the input dimension is a solver verdict.',
      'trusted: sym6502 instruction semantics (data-sheet), mini-linker layout, z3; assumptions A-ptr/A-dec/A-stk; loops bounded by 40 backward jumps per path (bound hits are compared, not ignored)',
      'SMT-decided equivalence of emitted 6502 code (symbolic execution, z3 QF_ABV), program families enumerated', 'E-TV', 'DESIGN.md 4/C02')
NA['C08'] = 'macro expansion is performed by the regex crate on patterns built at run time; the matcher cannot be encoded with the tools present and without it no symbolic dimension is left (DESIGN.md section 5)'
NA['C13'] = 'a property of emitted text over all programs with no value-level quantifier for a solver; depends on whole-generator reachability (DESIGN.md section 5); assembly failures met by E-TV are reported under the property being checked'
claim('C01', 'translation_validation',
      'For every program of the enumerated families G-expr/G-cond/G-ctl/G-call (about 10^4 quick, 4*10^4 thorough) the code the real compiler emits at -O1 and -O0 is compared with a reference meaning of the source (my own AST evaluated into z3 terms over the same flat memory): z3 decides, for EVERY initial memory/register state, whether final variables, X, Y and pointed-to bytes agree. Bracketing oracle (ISO and W8 readings) so that nothing is demanded beyond the property; every model is replayed concretely on the emitted code. The many genuine defects found are listed as known findings keyed by program + hash of the emitted code.',
      'trusted: tv/refsem.py (reference evaluator), sym6502 semantics, mini-linker, z3; A-ptr/A-idx/A-dec/A-stk; program dimension enumerated, not solver-quantified; shift>=width, /0, out-of-range indexing excluded as undefined',
      'SMT-decided equivalence between symbolic execution of emitted 6502 code and a reference C semantics (z3 QF_ABV); program families enumerated', 'E-TV', 'DESIGN.md 4/C01')
claim('C11', 'translation_validation',
      'Each family program is compiled plain, with --insert-code, -W all, and with layout noise inserted between any two tokens (block comments containing quotes, //, directives, URLs; // comments; blank lines; splices; tabs; CR-LF). Identical instruction streams are equal by construction; otherwise z3 decides equivalence over all initial states. A variant rejected or crashing while the plain source is accepted is a violation.',
      'as C02; noise is placed only at token boundaries of my printer output; the pest WHITESPACE/COMMENT rules and the cpp scanner run concretely (they are not encoded)',
      'SMT-decided equivalence of emitted code across listing options and comment/layout perturbations of the source', 'E-TV', 'DESIGN.md 4/C11')
claim('C14', 'translation_validation',
      'Every call-family program is compiled once per subset of its callees marked inline, at -O1 and -O0; each variant is proved equivalent to the all-out-of-line variant for every initial state by z3 (final variables, X, Y, pointed-to bytes, termination within the loop bound).',
      'as C02; inline + bank attributes and recursion outside the claim',
      'SMT-decided equivalence of emitted code with/without inline', 'E-TV', 'DESIGN.md 4/C14')
claim('C15', 'translation_validation',
      'Pairs (program, rewritten program) for every listed meaning-preserving rewrite (commute, op=, ++, if/!if, a<b / b>a, negated operator, for/while, switch/if-chain, register index vs constant, call vs in-place body) over the operand/condition families; z3 decides equivalence of the two emitted codes over all initial states (register-index rewrites restricted to states with the register equal to k; array indices in range).',
      'as C02 plus A-idx for programs indexing arrays by X/Y',
      'SMT-decided equivalence of emitted code for source-level rewrites', 'E-TV', 'DESIGN.md 4/C15')

"""C02 Optimisation never changes observable behaviour - E-TV relational (O0 vs O1/O2/O3)."""
import os, collections
import common, runner, families


def programs(tier, seed):
    yield from families.g_peep(tier)
    if tier == 'thorough':
        yield from families.g_peep_random(seed, 3000)
    try:
        import families2
        yield from families2.all_core(tier)
        import families3
        yield from families3.g_deep(tier)
        import families4
        yield from families4.g_wave4(tier)
        yield from families3.g_guarded(tier)        # (relational only: the pool contains statements with known C01 defects)
    except ImportError:
        pass


class TextProg:
    def __init__(self, pid, text, names): self.pid, self.text, self.names = pid, text, names
    def c(self): return self.text
    def gnames(self): return self.names


def g_addr_imm():
    """a register loaded with a byte of an ADDRESS (#<tab, #>tab) and compared with a number: the optimiser knows the operand text,
    not its value. The table is linked first to learn the two bytes, then compared with exactly those (and neighbouring) values."""
    import itertools
    from equiv import Session
    head = 'const unsigned char pad[] = {%s};\nconst unsigned char tab[4] = {1, 2, 3, 4};\nunsigned char vc, vd;\n'
    out = []
    for padn in (3, 16):
        probe = common.compile_one(head % ', '.join(['7'] * padn) + 'void main() { X = tab; vc = pad[1]; }\n', ['-O0'])
        if probe.status != 'ok': continue
        addr = Session().variant(probe).layout.sym.get('tab')
        if addr is None: continue
        lo, hi = addr & 0xff, addr >> 8
        for (rn, ld), (bn, byte, val) in itertools.product((('X', 'X = %s;'), ('Y', 'Y = %s;'), ('vd', 'vd = %s;')), (('lo', 'tab', lo), ('hi', 'tab >> 8', hi))):
            for k in sorted({val, (val + 1) & 0xff, 16}):
                for op in ('!=', '=='):
                    body = (ld % byte) + ' if (%s %s %d) vc = 1; else vc = 2; vd = pad[1];' % (rn, op, k)
                    out.append(TextProg('addr-imm/pad%d/%s/%s/%s%d' % (padn, rn, bn, op, k), head % ', '.join(['7'] * padn) + 'void main() { %s }\n' % body, ['vc', 'vd']))
    return out


def run(tier):
    rep = common.Report('C02', tier, 'translation_validation')
    common.build_driver()
    progs = list(programs(tier, rep.seed)) + g_addr_imm()
    variants = [('O0', ['-O0'], None), ('O1', ['-O1'], None), ('O2', ['-O2'], None), ('O3', ['-O3'], None)]
    stats, samples, results = runner.relational(rep, progs, variants, 'O0')
    rep.cov = dict(programs=stats['accepted'], disagreements_checked=stats['disagreements_checked'], samples=samples,
                   generated=stats['programs'], rejected_by_compiler=stats['base_err'], base_panics=stats['base_panic'],
                   variant_pairs=stats['variants'], identical_by_text=stats['identical_by_text'], decided_by_solver=stats['decided'],
                   unsupported=stats['unsupported'], bound_hits=stats['bound_hits'], queries=stats['queries'],
                   solver_s=round(stats['solver_s'], 1), compile_s=stats['compile_s'], solve_wall_s=stats['solve_wall_s'],
                   bounds=dict(max_backward_jumps_per_path=40, max_steps=3000, families='G-peep, core families, G-deep (nested value contexts, register targets, constant conditions, break/continue, ternaries, computed indices, 16-bit shifts, flag-cache contexts)'),
                   functions_exercised=['AssemblyCode::optimize', 'GeneratorState::optimize_function', 'generate_* (whole generator, concretely)'],
                   stats={k: v for k, v in stats.items()})
    rep.assumptions = ['A-ptr: pointer variables initially point into a data region disjoint from named variables, stack and cctmp',
                       'A-dec: decimal mode off', 'A-stk: S=$FF, page 1 holds no variables',
                       'program dimension is enumerated (family bound), input-state dimension is decided by z3 over all values',
                       'observables: all global variables, X, Y, bytes reachable through pointers; locals/cctmp are not observed']
    return rep.finish()

// Kani harness over the PUBLIC API: AssemblyCode::size_bytes equals the sum of the declared sizes of its lines
// (instruction nb_bytes, inline assembly at its declared size or the default 3), for every line kind mix of <= 4 lines.
#[cfg(kani)]
mod proofs {
    use cc6502::assemble::{AsmInstruction, AsmMnemonic, AssemblyCode};

    fn push_any(code: &mut AssemblyCode, expect: &mut u32) {
        let k: u8 = kani::any();
        kani::assume(k < 5);
        match k {
            0 => {
                let nb: u32 = kani::any();
                kani::assume(nb <= 3);
                code.append_asm(AsmInstruction { mnemonic: AsmMnemonic::NOP, dasm_operand: String::new(), cycles: 2, cycles_alt: None, nb_bytes: nb, protected: kani::any() });
                *expect += nb;
            }
            1 => {
                let s: u32 = kani::any();
                kani::assume(s <= 100_000);
                code.append_inline(String::new(), Some(s));
                *expect += s;
            }
            2 => {
                code.append_inline(String::new(), None);
                *expect += 3;
            }
            3 => code.append_label(String::new()),
            _ => {
                code.append_dummy();
            }
        }
    }

    fn body(max: u8) {
        let mut code = AssemblyCode::new();
        let mut expect: u32 = 0;
        let n: u8 = kani::any();
        kani::assume(n <= max);
        let mut i = 0;
        while i < n {
            push_any(&mut code, &mut expect);
            i += 1;
        }
        assert!(code.size_bytes() == expect);
        kani::cover!(n == max && expect > 4, "the maximal number of lines with a non-trivial size is reachable");
        std::mem::forget(code);
    }

    #[kani::proof]
    #[kani::unwind(4)]
    fn size_bytes_is_sum_of_2_lines() {
        body(2)
    }

    #[kani::proof]
    #[kani::unwind(6)]
    fn size_bytes_is_sum_of_4_lines() {
        body(4)
    }
}

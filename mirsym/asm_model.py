"""GeneratorState::asm executed from MIR for one configuration: concrete mnemonic / operand kind / variable shape,
symbolic integers (offset, immediate, size, bank) and symbolic `protected`."""
from base import *


class Fmt:
    """formatted text with symbolic holes"""
    def __init__(self, tpl, vals): self.tpl, self.vals = tpl, vals
    def __repr__(self): return 'Fmt(%r)' % self.tpl


def tpl_text(tpl):
    out, k = '', 0
    while k < len(tpl):
        b = tpl[k]; k += 1
        if b == 0: break
        if b < 0x80: out += tpl[k:k + b].decode(); k += b
        elif b == 0xc0: out += '{}'
        else: raise Unsupported('format template byte %x' % b)
    return out


def m_format(i, p, fr, c, a, d, r):
    tpl, vals = a[0].payload
    text = tpl_text(tpl)
    # fill in concrete string arguments, keep integers as holes
    parts = text.split('{}'); out = parts[0]; holes = []
    for k, v in enumerate(vals):
        v = S(v)
        if isinstance(v, Str) and all(isinstance(x, str) for x in v.parts): out += ''.join(v.parts)
        else: out += '{}'; holes.append(v)
        out += parts[k + 1]
    return ret(p, fr, d, r, Str([out]) if not holes else Str([Fmt(out, holes)]))


def s_text(v):
    v = S(v)
    if isinstance(v, Str):
        return ''.join(x if isinstance(x, str) else x.tpl for x in v.parts)
    return None


def m_str_eq(i, p, fr, c, a, d, r):
    x, y = s_text(a[0]), s_text(a[1])
    if x is None or y is None: raise Unsupported('string comparison on non-text')
    return ret(p, fr, d, r, z3.BoolVal(x == y))


def m_enum_eq(i, p, fr, c, a, d, r):
    x, y = S(a[0]), S(a[1])
    if not (isinstance(x, Adt) and isinstance(y, Adt)): raise Unsupported('enum eq on %r %r' % (x, y))
    dx, dy = discr_term(x), discr_term(y)
    e = dx == dy
    # payload-carrying variants (ROM(n), MemoryOnChip(n)): derived PartialEq also compares the payload
    if x.name == 'VariableMemory' and isinstance(x.discr, int) and isinstance(y.discr, int) and x.discr == y.discr:
        vn = ENUMS['VariableMemory'][x.discr]
        if (vn, 0) in x.fields or (vn, 0) in y.fields:
            e = x.field(vn, 0, 'u32', i.ctx).v == y.field(vn, 0, 'u32', i.ctx).v
    e = z3.simplify(e)
    return ret(p, fr, d, r, z3.Not(e) if c.endswith('::ne') else e)


def m_get_mut(i, p, fr, c, a, d, r):
    return ret(p, fr, d, r, opt(Ref(Cell(Opaque('AssemblyCode')))))


def m_add_assign_str(i, p, fr, c, a, d, r):
    cell = a[0].cell; cur = S(cell.v); add = S(a[1])
    cell.v = Str((cur.parts if isinstance(cur, Str) else [cur]) + (add.parts if isinstance(add, Str) else [add]))
    return ret(p, fr, d, r, Opaque('unit'))


def m_is_empty(i, p, fr, c, a, d, r):
    t = s_text(a[0]); return ret(p, fr, d, r, z3.BoolVal(t == ''))


def m_ident(i, p, fr, c, a, d, r): return ret(p, fr, d, r, S(a[0]))


ASM_MODELS = dict(LIB)
ASM_MODELS.update({
    r'^std::fmt::format$': m_format,
    r'^<&str as PartialEq>::eq$': m_str_eq, r'^<str as PartialEq>::eq$': m_str_eq, r'<std::string::String as PartialEq.*>::eq$': m_str_eq,
    r'^<compile::Variable(Memory|Type) as PartialEq>::(eq|ne)$': m_enum_eq, r'^<AsmMnemonic as PartialEq>::(eq|ne)$': m_enum_eq,
    r'^HashMap::<std::string::String, AssemblyCode>::get_mut::': m_get_mut,
    r'String as AddAssign<&str>>::add_assign$': m_add_assign_str, r'std::string::String::is_empty$': m_is_empty,
    r'core::str::<impl str>::trim_end$': m_ident,
})


def variable(ctx, vtype, memory, const, signed=None, size=None, bank=None):
    v = Adt('Variable', None); F = STRUCTS['Variable']
    mem = Adt('VariableMemory', ENUMS['VariableMemory'].index(memory))
    if memory in ('ROM', 'MemoryOnChip'): mem.fields[(memory, 0)] = Cell(bank if bank is not None else z3.BitVec('bank', 32))
    vals = {'var_type': Adt('VariableType', ENUMS['VariableType'].index(vtype)), 'var_const': z3.BoolVal(const),
            'signed': signed if signed is not None else z3.Bool('v.signed'), 'memory': mem, 'size': size if size is not None else z3.BitVec('v.size', 64)}
    for k, f in enumerate(F):
        if f in vals: v.fields[('', k)] = Cell(vals[f])
    return v


def operand(kind, name='var', eight_bits=True, off=None, imm=None, flag=None):
    e = Adt('ExprType', ENUMS['ExprType'].index(kind))
    if kind == 'Absolute':
        e.fields[(kind, 0)] = Cell(Str([name])); e.fields[(kind, 1)] = Cell(z3.BoolVal(eight_bits)); e.fields[(kind, 2)] = Cell(off if off is not None else z3.BitVec('off', 32))
    elif kind in ('AbsoluteX', 'AbsoluteY', 'Label'): e.fields[(kind, 0)] = Cell(Str([name]))
    elif kind == 'Immediate': e.fields[(kind, 0)] = Cell(imm if imm is not None else z3.BitVec('imm', 32))
    elif kind in ('Tmp', 'A'): e.fields[(kind, 0)] = Cell(flag if flag is not None else z3.Bool('flag'))
    return e


def run_asm(mir, fn, mn, opnd, var=None, scheme='4K', high_byte=False, budget_s=60):
    ctx = Ctx(mir)
    def m_get_variable(i, p, fr, c, a, d, r):
        if var is None: raise Unsupported('get_variable without a variable')
        return ret(p, fr, d, r, Ref(Cell(var)))
    def m_variables_get(i, p, fr, c, a, d, r):
        # lookup of the operand's name in the variable table: the operand names a declared variable (precondition of the
        # configurations; the only name the generator invents, ROM_SELECT, takes the error path when it is not declared)
        if var is None: raise Unsupported('variables.get without a variable')
        return ret(p, fr, d, r, opt(Ref(Cell(var))))
    models = dict(ASM_MODELS); models[r'CompilerState::<.*>::get_variable$'] = m_get_variable
    models[r'HashMap::<std::string::String, Variable>::get::<'] = m_variables_get
    it = Interp(ctx, inline=[r'GeneratorState<.*>>::asm$'], models=models); it.assume_some = False
    it.allow_uninterpreted = [r'syntax_error$', r'AssemblyCode::append_asm$', r'^log::', r'max_level', r'fmt::rt::Argument', r'^Arguments::', r'to_string$']
    gs = Adt('GeneratorState', None); F = STRUCTS['GeneratorState']
    gs.fields[('', F.index('bankswitching_scheme'))] = Cell(Ref(Cell(Str([scheme]))))
    gs.fields[('', F.index('protected'))] = Cell(z3.Bool('protected'))
    gs.fields[('', F.index('current_function'))] = Cell(opt(Str(['fn'])))
    gs.fields[('', F.index('compiler_state'))] = Cell(Ref(Cell(Adt('CompilerState', None))))
    gs.fields[('', F.index('functions_code'))] = Cell(Opaque('functions_code'))
    m = Adt('AsmMnemonic', ENUMS['AsmMnemonic'].index(mn))
    res = it.run(fn, [Ref(Cell(gs)), m, Ref(Cell(opnd)), z3.BitVec('pos', 64), z3.BoolVal(high_byte)], max_steps=3000, budget_s=budget_s)
    return ctx, res

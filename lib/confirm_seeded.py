"""Development-time tool: confirm a candidate seeded change in a scratch worktree of /repo:
 1. patch applies; 2. library builds and the 166 baseline tests pass with it; 3. the demonstration fails with it; 4. passes without it.
Then copies it to /verif/seeded/<name>/ with meta.json. usage: confirm_seeded.py <candidate-dir> [<check ids that must catch it>...]"""
import sys, os, subprocess, shutil, json, re, tempfile, time
VERIF = os.path.dirname(os.path.dirname(os.path.abspath(__file__)))
ENV = dict(os.environ, CARGO_NET_OFFLINE='true')

def sh(cmd, cwd, timeout=1200):
    p = subprocess.run(cmd, shell=True, cwd=cwd, capture_output=True, text=True, env=ENV, timeout=timeout)
    return p.returncode, (p.stdout + p.stderr)

def place_demo(wt, d, name):
    cmd, where = _place_demo(wt, d, name)
    readme = os.path.join(d, 'README.md')
    if os.path.exists(readme) and '--features atari2600' in open(readme).read(): cmd = cmd.replace('cargo test --offline', 'cargo test --offline --features atari2600')
    return cmd, where

def _place_demo(wt, d, name):
    demo = open(os.path.join(d, 'demo.rs')).read()
    if 'use cc6502::' in demo or '#[path' in demo:
        os.makedirs(os.path.join(wt, 'tests'), exist_ok=True)
        tname = 'demo_' + re.sub(r'\W+', '_', name).lower()
        open(os.path.join(wt, 'tests', tname + '.rs'), 'w').write(demo)
        return 'cargo test --offline --test %s' % tname, ('tests/%s.rs' % tname)
    lib = os.path.join(wt, 'src', 'lib.rs')
    s = open(lib).read()
    if 'use super::build::simple_build' in demo or demo.lstrip().startswith('// DEMO_MODULE'):
        # a module file of the library's own test tree: src/tests/<mod>.rs + `mod <mod>;` after `mod build;`
        m = re.search(r'DEMO_MODULE:\s*(\w+)', demo) or re.search(r'fn (demo_\w+)', demo)
        mod = m.group(1) if m else 'demo_' + re.sub(r'\W+', '_', name).lower()
        open(os.path.join(wt, 'src', 'tests', mod + '.rs'), 'w').write(demo)
        open(lib, 'w').write(s.replace('mod build;', 'mod build;\n    mod %s;' % mod, 1))
        return 'cargo test --offline --lib %s' % mod, 'src/tests/%s.rs (+ `mod %s;` in src/lib.rs mod tests)' % (mod, mod)
    k = s.rstrip().rfind('}')
    open(lib, 'w').write(s[:k] + '\n' + demo + '\n}\n')
    m = re.search(r'#\[test\]\s*(?:#\[[^\]]*\]\s*)*fn (\w+)', demo) if not re.search(r'mod (demo_\w+)', demo) else re.search(r'mod (demo_\w+)', demo)
    return 'cargo test --offline --lib %s' % (m.group(1) if m else 'demo'), 'src/lib.rs (appended inside mod tests)'

def main(d, checks):
    d = os.path.abspath(d); name = os.path.basename(d.rstrip('/'))
    wt = tempfile.mkdtemp(prefix='cc6502_conf_', dir='/tmp'); os.rmdir(wt)
    subprocess.run(['git', '-C', '/repo', 'worktree', 'add', '-f', wt, 'HEAD', '-q'], check=True)
    meta = dict(name=name, property=name.split('_')[0], confirmed=False, ran=[])
    try:
        # demo on the unchanged tree
        cmd, where = place_demo(wt, d, name)
        rc0, out0 = sh(cmd, wt)
        passed0 = rc0 == 0 and re.search(r'test result: ok\. [1-9]', out0) is not None
        meta['ran'].append(dict(step='demo on unchanged tree', cmd=cmd, passed=passed0, tail=out0[-300:] if not passed0 else ''))
        sh('git checkout -q -- . && git clean -fdq -e target', wt)
        rc, out = sh('git apply %s || git apply --3way %s' % (os.path.join(d, 'patch.diff'), os.path.join(d, 'patch.diff')), wt)
        meta['ran'].append(dict(step='git apply patch.diff', ok=rc == 0))
        if rc != 0: meta['error'] = 'patch does not apply: ' + out[-200:]; return meta
        rc1, out1 = sh('cargo test --offline --lib 2>&1 | grep "test result"', wt)
        base_ok = '166 passed; 0 failed' in out1
        meta['ran'].append(dict(step='baseline tests with the change', cmd='cargo test --offline --lib', result=out1.strip()[-120:], ok=base_ok))
        cmd, where = place_demo(wt, d, name)
        rc2, out2 = sh(cmd, wt)
        failed2 = rc2 != 0 and ('FAILED' in out2 or 'panicked' in out2 or 'failed' in out2)
        meta['ran'].append(dict(step='demo with the change', cmd=cmd, failed_as_expected=failed2, tail=out2[-400:] if not failed2 else ''))
        meta['demo_placement'] = where; meta['demo_cmd'] = cmd
        meta['confirmed'] = bool(passed0 and base_ok and failed2)
    finally:
        subprocess.run(['git', '-C', '/repo', 'worktree', 'remove', '--force', wt]); shutil.rmtree(wt, ignore_errors=True)
    return meta

if __name__ == '__main__':
    m = main(sys.argv[1], sys.argv[2:])
    print(json.dumps(m, indent=1)[:1500])
    json.dump(m, open(os.path.join(sys.argv[1], 'confirm.json'), 'w'), indent=1)

"""Writes MANIFEST.json from the table below (single source of truth for what is claimed)."""
import json, os
VERIF = os.path.dirname(os.path.dirname(os.path.abspath(__file__)))

CLAIMS = {}
NA = {}

def claim(pid, category, text, note, technique, engine, design_ref):
    CLAIMS[pid] = dict(property_id=pid, quick_cmd='./check %s --tier quick' % pid, thorough_cmd='./check %s --tier thorough' % pid,
                       evidence_file='/verif/evidence/%s.json' % pid, replay_cmd_template='./check replay {path}', engine=engine,
                       level_claimed=dict(category=category, text=text, design_ref=design_ref), level_note=note, technique=technique)

exec(open(os.path.join(VERIF, 'lib', 'claims.py')).read())

ALL = ['C%02d' % i for i in range(1, 19)]
man = dict(version=1,
           setup_cmd='./check setup',
           hooks=dict(guard='steux_cc6502_verif', enable='no source hooks are used: checks use the public API (driver crate with a path dependency on /repo) and the MIR of the unmodified source',
                      baseline_off_cmd='cd /repo && cargo test --workspace --no-fail-fast --offline', source_commits=[], add_only=True),
           engines=[dict(name='E-TV', path='/verif/tv', serves_properties=[p for p in ALL if CLAIMS.get(p, {}).get('engine', '').find('E-TV') >= 0],
                         kind_free_text='translation validation: code emitted by the real compiler is executed symbolically (sym6502 + z3); the solver decides all initial machine states'),
                    dict(name='E-MIR', path='/verif/mirsym', serves_properties=[p for p in ALL if CLAIMS.get(p, {}).get('engine', '').find('E-MIR') >= 0],
                         kind_free_text='bounded symbolic execution of rustc MIR dumped from /repo on every run; z3 decides all argument values'),
                    dict(name='E-KANI', path='/verif/kani', serves_properties=[p for p in ALL if CLAIMS.get(p, {}).get('engine', '').find('E-KANI') >= 0],
                         kind_free_text='Kani/CBMC harness over the public API')],
           checks=[CLAIMS[p] for p in ALL if p in CLAIMS],
           not_applicable=[dict(property_id=p, reason=NA.get(p, 'check not built yet (work in progress)')) for p in ALL if p not in CLAIMS],
           notes='exit codes: 0 held on everything explored (known findings allowed), 1 new violation, 2 could not decide (engine error / inconclusive). See DESIGN.md.')
json.dump(man, open(os.path.join(VERIF, 'MANIFEST.json'), 'w'), indent=1)
print('claimed', sorted(CLAIMS), 'n/a', [p for p in ALL if p not in CLAIMS])

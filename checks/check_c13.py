"""C13 Emitted assembly always assembles - restricted (DESIGN 4/C13).
(a) E-MIR: AssemblyCode::check_branches on line layouts with symbolic filler sizes: after the repair every referenced label is
    defined exactly once and every relative branch is in range (z3 over all sizes), validated against the real function;
(b) E-MIR: GeneratorState::asm for every mnemonic x operand kind x variable shape x scheme: the (mnemonic, operand text) it emits
    is a pair the 6502 provides, or the call is rejected - pairs passed through are CANDIDATES (asm() is analysed in isolation);
(c) E-MIR: append_code applied twice (two inline expansions) - all labels of the result distinct, every renamed branch target defined;
(d) every program of the E-TV families x levels x inline subsets is assembled by the independent assembler: an illegal
    mnemonic/mode pair, an undefined or duplicated label, an out-of-range branch is a violation; a candidate of (b) met here is
    reported with the configuration that produces it."""
import os, re, sys, time, itertools, collections, multiprocessing, copy, hashlib
import common, runner, families, families2

_PROGS = None


def corpus_programs(tier):
    import families3, check_c14, check_c03, check_c04
    P = []
    q = 'quick'
    for p in families.g_peep(q):
        if tier == 'thorough' or p.pid.startswith(('peep/1/', 'peep/f', 'peep/a/')) or families.stable_pick(p.pid, 100, 25): P.append((p, None))
    for p in families2.all_core(tier): P.append((p, None))
    for p in families3.g_deep(tier): P.append((p, None))
    import families4
    for p in families4.g_wave4(tier): P.append((p, None))
    for p in check_c04.g_modes() + check_c04.g_asm() + check_c04.g_hwconst(): P.append((p, None))
    # two 16-bit comparisons in one condition (each creates its own .ifstartN labels), in every pairing
    from cast import If, Block, ExprS, Inc, Index, While
    from families import V, C, A, B, mkprog
    c16 = [('wa>wb', lambda: B('>', V('wa'), V('wb'))), ('wa<=wb', lambda: B('<=', V('wa'), V('wb'))), ('wa!=2000', lambda: B('!=', V('wa'), C(2000))), ('wc<=500', lambda: B('<=', V('wc'), C(500))), ('ha>hb', lambda: B('>', V('ha'), V('hb'))),
           ('wc>wa', lambda: B('>', V('wc'), V('wa'))), ('wa==wb', lambda: B('==', V('wa'), V('wb'))), ('wa<wb', lambda: B('<', V('wa'), V('wb'))), ('wa>=wb', lambda: B('>=', V('wa'), V('wb'))), ('va<vb', lambda: B('<', V('va'), V('vb')))]
    for (n1, c1), (n2, c2), lo in itertools.product(c16, c16, ('&&', '||')):
        if n1 == n2: continue
        P.append((mkprog('cond16/%s%s%s/if' % (n1, lo, n2), [If(B(lo, c1(), c2()), A(V('vc'), C(1)), A(V('vc'), C(2)))]), None))
        if families.stable_pick(n1 + lo + n2, 100, 30):
            P.append((mkprog('cond16/%s%s%s/while' % (n1, lo, n2), [A(V('vd'), C(2)), While(B('&&', B(lo, c1(), c2()), V('vd')), ExprS(Inc('--', False, V('vd'))))]), None))
            P.append((mkprog('cond16/%s%s%s/three' % (n1, lo, n2), [If(B(lo, B(lo, c1(), c2()), c1()), A(V('vc'), C(1)))]), None))
    # a branch over a body of Y-indexed accesses, swept across the short-branch limit
    for n in range(16, 34):
        P.append((mkprog('window/aY/%d' % n, [If(B('==', V('va'), V('vb')), Block([A(Index('brr', V('Y')), Index('arr', V('Y'))) for _ in range(n)])), A(V('vc'), C(1))]), None))
        if n % 3 == 0:
            P.append((mkprog('window/wY/%d' % n, [If(B('==', V('va'), V('vb')), Block([A(V('wa'), Index('warr', V('Y'))) for _ in range(n * 6 // 10)])), A(V('vc'), C(1))]), None))
    # every statement kind that creates local labels of its own, between two ifs and next to each other (label counters read / bumped
    # in the wrong order collide with a neighbour's label)
    from cast import Tern, Switch, Break, DoWhile, For, Assign, Un, Raw
    X, Y = V('X'), V('Y')
    incd = lambda op, lv: (lambda: ExprS(Inc(op, False, lv())))
    makers = [('wX--', incd('--', lambda: Index('warr', X))), ('wX++', incd('++', lambda: Index('warr', X))), ('wY--', incd('--', lambda: Index('warr', Y))), ('wY++', incd('++', lambda: Index('warr', Y))),
              ('w2--', incd('--', lambda: Index('warr', C(2)))), ('wa--', incd('--', lambda: V('wa'))), ('wa++', incd('++', lambda: V('wa'))), ('ha=sa', lambda: A(V('ha'), V('sa'))), ('ha=sarrX', lambda: A(V('ha'), Index('sarr', X))),
              ('tern', lambda: A(V('vb'), Tern(V('va'), C(1), C(2)))), ('tern16', lambda: A(V('wa'), Tern(V('va'), V('wb'), V('wc')))), ('not', lambda: A(V('vb'), Un('!', V('va')))), ('land', lambda: A(V('vb'), B('&&', V('va'), V('vc')))),
              ('cmp16', lambda: If(B('<=', V('wa'), V('wb')), A(V('vb'), C(1)))), ('cmpset', lambda: A(V('vb'), B('<', V('va'), V('vc')))), ('scmp', lambda: If(B('<', V('sa'), V('sb')), A(V('vb'), C(1)))),
              ('switch', lambda: Switch(V('va'), [(1, [A(V('vb'), C(1)), Break()]), (None, [A(V('vb'), C(2))])])), ('do', lambda: DoWhile(Block([ExprS(Inc('--', False, V('vd')))]), V('vd'))),
              ('for', lambda: For(Assign(V('vd'), '=', C(0)), B('<', V('vd'), C(2)), Inc('++', False, V('vd')), A(V('vb'), V('vd')))), ('cs', lambda: Raw('csleep', 7)), ('shl-var', lambda: A(V('wa'), C(3), '<<=')), ('w-=', lambda: A(V('wa'), V('vb'), '-='))]
    iff = lambda n: If(V('va'), A(V(n), C(1)))
    for (n1, m1) in makers:
        P.append((mkprog('labelmix/if+%s+if' % n1, [iff('vb'), m1(), iff('vc')]), None))
        P.append((mkprog('labelmix/in-if/%s' % n1, [If(V('va'), Block([m1(), A(V('vc'), C(1))]), Block([m1()]))]), None))
        for (n2, m2) in makers:
            if families.stable_pick(n1 + '+' + n2, 100, 35 if tier == 'quick' else 100): P.append((mkprog('labelmix/%s+%s' % (n1, n2), [m1(), m2(), m1()]), None))
    # near-valid statements the generator might pass through to the assembler: accepted => must assemble
    class RawProg:
        def __init__(self, pid, text): self.pid, self.text, self.globs, self.funcs = pid, text, [], []
        def c(self): return self.text
    D = 'char x, i; char *p; short w; char t[4];\nvoid fv() { }\nchar fc() { return 1; }\n'
    for n, body in (('addr-assign', '&x = 3;'), ('addr-assign16', '&w = 3;'), ('load-void', 'load(fv());'), ('store-void', 'store(fv());'), ('strobe-void', 'strobe(fv());'), ('x-addr', 'X = &x;'), ('deref-addr', '*(&x) = 3;'),
                    ('ptr-addr', 'p = &x; *p = 1;'), ('addr-cmp', 'if (&x) x = 1;'), ('neg-void', 'x = -fv();'), ('idx-void', 'x = t[fv()];'), ('ret-addr', 'x = &t;'), ('cass-addr', '&x += 1;'), ('inc-addr', '(&x)++;'),
                    ('load-call', 'load(fc());'), ('store-call', 'store(fc());'), ('load-addr', 'load(&x);'), ('store-imm', 'store(3);'), ('store-X', 'store(X);'), ('load-idx', 'load(t[X]);'), ('strobe-idx', 'strobe(t[X]);'),
                    ('user-label-for1', 'for (i = 0; i != 3; i++) { x++; } goto for1; x = 2; for1: x = 3;'), ('user-label-ifend1', 'if (x) x = 1; goto ifend1; x = 2; ifend1: x = 3;'),
                    ('user-label-while1', 'i = 2; while (i) i--; goto while1; while1: x = 3;'), ('user-label-plain', 'goto out; x = 2; out: x = 3;'), ('user-label-twice', 'goto out; out: x = 3; goto out2; out2: x = 4;')):
        P.append((RawProg('special/' + n, D + 'void main() { %s }\n' % body), None))
    for p in families2.g_call(q) + check_c14.extra_programs():
        names = [f.name for f in p.funcs]
        for r in range(1, len(names) + 1):
            for sub in itertools.combinations(names, r): P.append((p, sub))
    return P


def _asm_chunk(args):
    """compile and assemble one chunk of the corpus in a worker (own driver process)"""
    idx, tier = args
    from equiv import Session
    from sym6502 import AsmError, Unsupported as U2
    global _PROGS
    progs = _PROGS[idx::64]
    reqs, src = [], {}
    for p, sub in progs:
        if sub:
            q = copy.deepcopy(p)
            for f in q.funcs: f.inline = f.name in sub
            text = q.c(); tag = '@inline:' + '+'.join(sub)
        else: text = p.c(); tag = ''
        for lvl in ('-O1', '-O0'):
            rid = p.pid + tag + lvl; reqs.append((rid, [lvl], text)); src[rid] = ([lvl], text)
        cands = [n for t, n in p.globs if t != 'ptr']
        if not sub and cands and families.stable_pick(p.pid, 100, 20):
            q = copy.copy(p); q.quals = {n: 'superchip' for n in cands}
            rid = p.pid + '@super'; reqs.append((rid, ['-O1'], q.c())); src[rid] = (['-O1'], q.c())
    R = common.compile_many(reqs)
    out = dict(programs=0, functions=0, instructions=0, rejected=0, fails=[])
    for rid, c in R.items():
        if c.status != 'ok': out['rejected'] += 1; continue
        out['programs'] += 1
        try:
            v = Session().variant(c)
            out['functions'] += len(v.prog.func_range); out['instructions'] += len(v.prog.code)
        except AsmError as e:
            out['fails'].append((rid, str(e), src[rid][0], src[rid][1], runner.code_hash(c), {f: c.funcs[f]['lines'] for f in c.order if c.funcs[f]['has_code']}))
        except U2:
            pass
    return out


def check_corpus(rep, tier, st, candidates):
    global _PROGS
    _PROGS = corpus_programs(tier)
    ctx = multiprocessing.get_context('fork')
    with ctx.Pool(min(common.NCPU, 16)) as pool:
        for o in pool.imap_unordered(_asm_chunk, [(i, tier) for i in range(64)]):
            for k in ('programs', 'functions', 'instructions', 'rejected'): st['corpus_' + k] += o[k]
            for rid, msg, args, text, h, code in o['fails']:
                st['corpus_failures'] += 1
                shape = None
                m = re.match(r'illegal addressing mode: (\w+)\s*(.*)', msg)
                if m: shape = (m.group(1), re.sub(r'[A-Za-z_.]\w*', 'v', re.sub(r'\d+', '1', m.group(2))))
                why = ''
                if shape and shape in candidates: why = '; asm() passes this pair through for configuration %s' % (candidates[shape],)
                rep.violation('noasm:%s#%s' % (rid, h), '%s: the emitted code is rejected by a 6502 assembler: %s%s' % (rid, msg, why), dict(kind='tv-noasm', source=text, args=args, msg=msg, code=code), sig=['noasm: ' + re.sub(r'\d+', 'N', msg)])
    if len(st['samples']) < 4:
        st['samples'].append(dict(part='corpus', programs=st['corpus_programs'], instructions=st['corpus_instructions'], verdict='every instruction has a legal addressing mode, every label is defined exactly once, every relative branch is in range'))


def check_bank_stubs(rep, st):
    """bankswitching calls: `JSR Call<f>` refers to a trampoline that the linkers emit for functions in a bank other than 0 only; a call
    that needs a stub which cannot exist must be rejected"""
    srcs = {'bank1-calls-bank0': 'char v;\nvoid add() { v++; }\nbank1 void upd() { add(); }\nvoid main() { upd(); }\n',
            'bank1-calls-bank2': 'char v;\nbank2 void add() { v++; }\nbank1 void upd() { add(); }\nvoid main() { upd(); }\n',
            'bank0-calls-bank1': 'char v;\nbank1 void add() { v++; }\nvoid main() { add(); }\n',
            'bank1-calls-bank1': 'char v;\nbank1 void add() { v++; }\nbank1 void upd() { add(); }\nvoid main() { upd(); }\n',
            'bank1-inline-calls-bank0': 'char v;\nvoid add() { v++; }\ninline void mid() { add(); }\nbank1 void upd() { mid(); }\nvoid main() { upd(); }\n'}
    R = common.compile_many([(k, ['-O1'], s) for k, s in srcs.items()])
    for k, c in R.items():
        st['bank_programs'] += 1
        if c.status != 'ok': continue
        for f in c.order:
            if not c.funcs[f]['has_code']: continue
            for l in c.funcs[f]['lines']:
                m = re.match(r'\s+JSR\s+Call(\w+)', l)
                if m and m.group(1) in c.funcs and c.funcs[m.group(1)]['bank'] == 0:
                    rep.violation('bankstub:%s' % k, '%s: %s (bank %d) contains `%s` but %s is in bank 0: no trampoline Call%s exists' % (k, f, c.funcs[f]['bank'], l.strip(), m.group(1), m.group(1)),
                                  dict(kind='tv-noasm', source=srcs[k], args=['-O1'], msg=l.strip()))


def check_asm_legality(rep, tier, st):
    """-> {(mnemonic, operand shape): example configuration} for pairs asm() emits although the 6502 has no such instruction"""
    import check_c04
    cfgs = list(check_c04.configs())
    ctx = multiprocessing.get_context('fork')
    t0 = time.time()
    with ctx.Pool(common.NCPU) as pool:
        results = [r for ch in pool.imap_unordered(check_c04._job, [cfgs[i::64] for i in range(64)]) for r in ch]
    st['asm_wall_s'] = round(time.time() - t0, 1)
    cand = {}
    for r in results:
        st['asm_configs'] += 1; st['asm_paths'] += r['paths']; st['queries'] += r['queries']
        st['obligations'] += r['ok'] + r['err'] + len(r['viol']) + len(r['illegal']); st['discharged'] += r['ok'] + r['err'] + len(r['viol'])
        if r['unsupported']: rep.inconc('asm() configuration %s: %s' % (r['cfg'], r['unsupported']))
        for i in r['illegal']:
            head = i.split(':')[0]; mn = head.split(' ')[0]; op = head.split(' ', 1)[1] if ' ' in head else ''
            shape = (mn, re.sub(r'[A-Za-z_.]\w*', 'v', re.sub(r'\d+', '1', op.replace('{}', '1'))))
            cfg = {k: v for k, v in r['cfg'].items() if k in ('mn', 'kind', 'var', 'hb')}
            if shape not in cand or (cand[shape]['var'] is not None and cfg['var'] is None): cand[shape] = cfg
    st['asm_illegal_candidates'] = len(cand)
    st['asm_candidate_examples'] = ['%s %s <- asm(%s, %s)' % (k[0], k[1], v['mn'], v['kind']) for k, v in sorted(cand.items())[:14]]
    st['samples'].append(dict(part='asm()', configurations=len(cfgs), rejecting_paths=sum(r['err'] for r in results), legal_paths=sum(r['ok'] + len(r['viol']) for r in results), illegal_pairs_passed_through=len(cand),
                              verdict='candidates only: asm() is analysed for all arguments, the corpus decides whether the generator passes them'))
    return cand


def check_append_twice(rep, mir, st):
    import z3
    from asm_model import Interp, Ctx, ASM_MODELS, Adt, Cell, Ref, S, STRUCTS, ENUMS, Opaque, Unsupported
    import check_c03 as c3
    fn = [n for n in mir.index if n.endswith('>::append_code')][0]
    models = dict(c3.MODELS)
    def m_into_iter(i, p, fr, c, a, d, r): return c3.ret(p, fr, d, r, Opaque('sliceiter', [S(a[0]), 0]))
    models[r'<&Vec<AsmLine> as IntoIterator>::into_iter$'] = m_into_iter
    models[r'<(AsmMnemonic|Option<u32>|u32|bool|std::string::String) as Clone>::clone$'] = c3.m_clone
    for c1, c2 in ((1, 2), (1, 11), (7, 8), (12, 1)):
        body = lambda: [c3.label('.ifend1'), c3.inst('LDA', 'v', 2), c3.inst('BEQ', '.ifend1', 2), c3.inst('JMP', '.endof', 3), c3.label('.else1'), c3.inst('BMI', '.else1', 2), c3.inst('BNE', '.x1', 2),
                        c3.label('.x1'), c3.inst('BCC', '.ifend1', 2), c3.inst('BCS', '.else1', 2), c3.inst('BPL', '.x1', 2), c3.label('.endof')]
        dst = Adt('AssemblyCode', None); dst.fields[('', 0)] = Cell(c3.VecC([Cell(c3.label('.ifend1')), Cell(c3.inst('BEQ', '.ifend1', 2))]))
        ok = True
        try:
            final = None
            for cnt in (c1, c2):
                ctx = Ctx(mir)
                it = Interp(ctx, inline=[r'<AsmLine as Clone>::clone$', r'<AsmInstruction as Clone>::clone$', r'assemble::<impl.*>::clone$', r'AssemblyCode::append_(label|asm|inline|comment|dummy)$'], models=models); it.assume_some = False
                it.allow_uninterpreted = [r'^log::', r'max_level', r'fmt::rt::Argument', r'^Arguments::']
                src = Adt('AssemblyCode', None); src.fields[('', 0)] = Cell(c3.VecC([Cell(l) for l in body()]))
                res = it.run(fn, [Ref(Cell(dst)), Ref(Cell(src)), z3.BitVecVal(cnt, 32)], max_steps=6000, budget_s=60)
                rets = [x for x in res if x[0] == 'return']
                if len(rets) != 1: rep.inconc('append_code twice: %d returning paths' % len(rets)); ok = False; break
                final = rets[0][1].final_vec
                dst = Adt('AssemblyCode', None); dst.fields[('', 0)] = Cell(final)
            if not ok: continue
            out = c3.decode(final)
            labs = [x[1] for x in out if x[0] == 'L']
            refs = [(x[2] if x[0] == 'B' else x[1]) for x in out if x[0] in ('B', 'J')]
            st['obligations'] += 1
            dup = sorted({l for l in labs if labs.count(l) > 1}); undef = sorted({r for r in refs if r not in labs})
            if dup or undef:
                rep.violation('append_code.labels.%d.%d' % (c1, c2), 'two inline expansions (counters %d, %d): duplicated labels %s, undefined targets %s' % (c1, c2, dup, undef), dict(kind='mir-asm-site', site='append_code', lines=c3.final_text(out)))
            else: st['discharged'] += 1
        except Unsupported as e:
            rep.inconc('append_code twice: %s' % e)
    st['samples'].append(dict(part='append_code', verdict='two expansions of a 12-line body with 7 branches into one caller: labels distinct, targets defined (counters 1/2, 1/11, 7/8, 12/1)'))


def run(tier):
    rep = common.Report('C13', tier, 'other')
    common.build_driver()
    sys.path.insert(0, os.path.join(common.VERIF, 'mirsym'))
    from base import load
    import check_c03
    st = collections.defaultdict(int); st['samples'] = []
    mir = load('on')
    cand = check_asm_legality(rep, tier, st)
    check_append_twice(rep, mir, st)
    st3 = collections.defaultdict(int); st3['samples'] = []
    check_c03.check_layouts(rep, mir, tier, st3, only={'labels', 'disp', 'panic'}, keyprefix='c13.check_branches')
    check_corpus(rep, tier, st, cand)
    check_bank_stubs(rep, st)
    rep.cov = dict(explanation='(a) check_branches from MIR on line layouts with symbolic filler sizes: labels defined exactly once and every branch in range after the repair (z3), validated against the real function; '
                   '(b) GeneratorState::asm from MIR for every configuration: emitted (mnemonic, operand) legal or call rejected - pairs passed through are candidates; (c) append_code applied twice from MIR: labels distinct, '
                   'targets defined; (d) enumerated: every program of the E-TV families x levels x inline subsets x superchip placement assembled by the independent assembler',
                   obligations=st['obligations'] + st3['obligations'], discharged=st['discharged'] + st3['discharged'], evaluations=st['asm_paths'] + st3['paths'] + st['corpus_programs'], distinct_nontrivial=st['asm_configs'] + st3['layouts'],
                   asm_configurations=st['asm_configs'], asm_paths=st['asm_paths'], asm_wall_s=st['asm_wall_s'], asm_illegal_pairs_passed_through=st['asm_illegal_candidates'], asm_candidate_examples=st['asm_candidate_examples'],
                   layouts=st3['layouts'], layout_paths=st3['paths'], validated_paths_against_real_code=st3['validated_paths'], queries=st['queries'] + st3['queries'],
                   corpus_programs=st['corpus_programs'], corpus_functions=st['corpus_functions'], corpus_instructions=st['corpus_instructions'], corpus_rejected_by_compiler=st['corpus_rejected'], corpus_assembly_failures=st['corpus_failures'],
                   samples=st['samples'] + st3['samples'][:1],
                   bounds=dict(check_branches='<= 9 lines, <= 3 branches, filler sizes 0..255 symbolic', asm='loop-free, integer arguments at full width', append_code='12-line body, 4 counter pairs', corpus='the E-TV families (program dimension enumerated)'),
                   scope='restricted: over all programs the property has no value-level quantifier; the solver decides the repair and the operand selection, the program dimension is enumerated',
                   trusted_base=['mirsym + models', 'z3', '6502 data-sheet table and assembler in tv/sym6502.py', 'driver B mode'])
    rep.assumptions = ['symbols the downstream linker provides (variables, Call<f> bank stubs) are defined', 'inline functions are assembled inside their callers only (their own copy is never emitted by the linkers)',
                       'asm() analysed in isolation accepts pairs no caller passes (TAX v ...): listed as candidates in the evidence, never reported without a program that emits them']
    return rep.finish()

"""C14 Inlining is transparent - E-TV relational: every subset of eligible callees marked inline vs none."""
import itertools, copy
import common, runner, families, families2
from cast import *
from families import V, C, A, B, mkprog


def extra_programs():
    """call shapes aimed at inlining: several call sites, nested inline calls, early returns, loops, flags across the call"""
    F = Func
    ret = lambda e: Return(e)
    P = []
    def add(pid, funcs, stmts, extra=()): P.append(mkprog(pid, stmts, funcs=funcs, extra_globals=extra))
    inc = lambda n: ExprS(Inc('++', False, V(n)))
    dec = lambda n: ExprS(Inc('--', False, V(n)))
    add('inl/two_sites', [F('f', 'u8', [('u8', 'x')], Block([If(B('<', V('x'), C(10)), ret(C(1))), ret(C(2))]))],
        [A(V('vb'), Call('f', [V('va')])), A(V('vc'), Call('f', [V('vb')])), A(V('vd'), Call('f', [C(200)]))])
    add('inl/void_sets_x', [F('f', None, [], Block([A(V('X'), C(0))]))], [dec('Y'), ExprS(Call('f', [])), If(V('Y'), A(V('va'), C(1)))])
    add('inl/void_after_dec', [F('f', None, [], Block([inc('vc')]))], [dec('va'), ExprS(Call('f', [])), If(V('va'), A(V('vb'), C(1)), A(V('vb'), C(2)))], extra=['vc'])
    add('inl/signed_cmp', [F('f', 'u8', [('s8', 'x')], Block([If(B('<', V('x'), C(0)), ret(C(1))), ret(C(0))]))],
        [A(V('vb'), Call('f', [V('sa')])), If(B('<', V('sb'), C(0)), A(V('vc'), C(1)), A(V('vc'), C(2)))])
    add('inl/signed_loop', [F('f', 'u8', [('s8', 'x')], Block([A(V('r'), C(0)), While(B('&&', B('<', V('x'), C(0)), B('<', V('r'), C(3))), Block([inc('x'), inc('r')])), ret(V('r'))], decls=[('u8', 'r', C(0))]))],
        [A(V('vb'), Call('f', [V('sa')])), If(B('<', V('sb'), C(0)), inc('sb'))])
    for op in ('<', '<=', '>', '>=', '==', '!='):
        for rn, rhs in (('sb', lambda: V('y')), ('k', lambda: C(3)), ('z', lambda: C(0))):
            add('inl/scmp/%s/%s' % (op, rn), [F('f', 'u8', [('s8', 'x'), ('s8', 'y')], Block([If(B(op, V('x'), rhs()), A(V('r'), C(1)), A(V('r'), C(2))), ret(V('r'))], decls=[('u8', 'r', C(0))]))],
                [A(V('vb'), Call('f', [V('sa'), V('sb')])), If(B(op, V('sb'), C(1)), A(V('vc'), C(1)), A(V('vc'), C(2))), A(V('vd'), Call('f', [V('sb'), V('sa')]))])
            add('inl/ucmp/%s/%s' % (op, rn), [F('f', 'u8', [('u8', 'x'), ('u8', 'y')], Block([If(B(op, V('x'), rhs()), A(V('r'), C(1)), A(V('r'), C(2))), ret(V('r'))], decls=[('u8', 'r', C(0))]))],
                [A(V('vb'), Call('f', [V('va'), V('vc')])), If(B(op, V('vc'), C(1)), A(V('vd'), C(1)), A(V('vd'), C(2))), A(V('va'), Call('f', [V('vc'), V('vb')]))])
        add('inl/wcmp/%s' % op, [F('f', 'u8', [('u16', 'x'), ('u16', 'y')], Block([If(B(op, V('x'), V('y')), ret(C(1))), ret(C(2))]))],
            [A(V('vb'), Call('f', [V('wa'), V('wb')])), While(B('&&', B(op, V('wa'), V('wb')), B('<', V('vc'), C(2))), inc('vc')), A(V('vd'), Call('f', [V('wb'), V('wa')]))])
    # values assigned right after an inlined call (the registers the callee's last path left behind must not be trusted)
    for tail_n, tail in (('s0', lambda: A(V('vc'), C(0))), ('s1', lambda: A(V('vc'), C(1))), ('sx', lambda: A(V('X'), C(0))), ('cmp', lambda: If(B('==', V('vb'), C(1)), A(V('vc'), C(5)))), ('w0', lambda: A(V('wa'), C(0)))):
        add('inl/ret01/' + tail_n, [F('f', 'u8', [('u8', 'a')], Block([If(B('>', V('a'), C(9)), ret(C(1))), ret(C(0))]))], [A(V('vb'), Call('f', [V('va')])), tail()])
        add('inl/ret_var/' + tail_n, [F('f', 'u8', [('u8', 'a')], Block([If(B('&', V('a'), C(1)), ret(V('a'))), If(B('&', V('a'), C(2)), ret(C(2))), ret(C(0))]))], [A(V('vb'), Call('f', [V('va')])), tail(), A(V('vd'), Call('f', [V('vc')]))])
        add('inl/void_early/' + tail_n, [F('f', None, [('u8', 'a')], Block([If(B('==', V('a'), C(0)), Return()), A(V('vd'), C(0)), inc('vd')]))], [ExprS(Call('f', [V('va')])), tail(), ExprS(Call('f', [V('vb')]))], extra=['vd'])
    add('inl/do_while_y', [F('g', None, [], Block([A(V('X'), C(0)), inc('vc')]))], [A(V('Y'), B('&', V('Y'), C(3))), DoWhile(Block([dec('Y'), ExprS(Call('g', []))]), V('Y'))], extra=['vc'])
    add('inl/while_y', [F('g', None, [], Block([A(V('va'), C(0))]))], [A(V('Y'), B('&', V('Y'), C(3))), While(V('Y'), Block([dec('Y'), ExprS(Call('g', []))]))])
    add('inl/block_return', [F('f', 'u8', [('u8', 'a')], Block([If(V('a'), Block([A(V('vb'), C(1)), ret(C(1))])), A(V('vb'), C(2)), ret(C(0))]))], [A(V('vc'), Call('f', [V('va')]))], extra=['vb'])
    add('inl/nested_inline', [F('g', 'u8', [('u8', 'y')], Block([If(B('==', V('y'), C(3)), ret(C(7))), ret(V('y'))])),
                              F('f', 'u8', [('u8', 'x')], Block([ret(B('+', Call('g', [V('x')]), Call('g', [C(3)])))]))],
        [A(V('vb'), Call('f', [V('va')])), A(V('vc'), Call('g', [V('vb')]))])
    add('inl/nested_twice', [F('g', 'u8', [('u8', 'y')], Block([If(B('==', V('y'), C(3)), ret(C(7))), ret(V('y'))])),
                             F('f', 'u8', [('u8', 'x')], Block([ret(B('+', Call('g', [V('x')]), Call('g', [C(3)])))]))],
        [A(V('vb'), Call('f', [V('va')])), A(V('vc'), Call('f', [V('vb')])), A(V('vd'), Call('g', [V('vc')]))])
    add('inl/nested_loop_twice', [F('g', 'u8', [('u8', 'n')], Block([A(V('n'), B('&', V('n'), C(3))), A(V('r'), C(0)), While(V('n'), Block([dec('n'), inc('r')])), ret(V('r'))], decls=[('u8', 'r', C(0))])),
                                  F('f', 'u8', [('u8', 'x')], Block([If(B('>', V('x'), C(100)), ret(Call('g', [C(2)]))), ret(Call('g', [V('x')]))]))],
        [A(V('vb'), Call('f', [V('va')])), If(V('vb'), A(V('vc'), Call('f', [V('vb')])), A(V('vc'), Call('f', [C(200)])))])
    add('inl/nested3', [F('h', None, [], Block([If(V('vd'), Block([A(V('vd'), C(0)), Return()])), inc('sb')])), F('g', None, [], Block([ExprS(Call('h', [])), inc('sc'), ExprS(Call('h', []))])),
                        F('f', None, [], Block([ExprS(Call('g', [])), If(V('sb'), ExprS(Call('g', [])))]))],
        [ExprS(Call('f', [])), A(V('vc'), C(1)), ExprS(Call('f', []))], extra=['vd', 'sb', 'sc'])
    add('inl/loop_in_body_twice', [F('f', 'u8', [('u8', 'n')], Block([A(V('n'), B('&', V('n'), C(3))), A(V('r'), C(0)), While(V('n'), Block([dec('n'), A(V('r'), C(2), '+=')])), ret(V('r'))], decls=[('u8', 'r', C(0))]))],
        [A(V('vb'), Call('f', [V('va')])), A(V('vc'), Call('f', [V('vb')]))])
    add('inl/in_loop', [F('f', None, [('u8', 'v')], Block([If(B('&', V('v'), C(1)), inc('vc'), inc('vd'))]))],
        [For(Assign(V('va'), '=', C(0)), B('<', V('va'), C(4)), Inc('++', False, V('va')), ExprS(Call('f', [V('va')])))], extra=['vc', 'vd'])
    add('inl/switch_body', [F('f', 'u8', [('u8', 'v')], Block([Switch(V('v'), [(0, [ret(C(5))]), (1, [ret(C(6))]), (None, [Break()])]), ret(C(9))]))],
        [A(V('vb'), Call('f', [V('va')])), A(V('vc'), Call('f', [C(1)]))])
    add('inl/ret_in_expr', [F('f', 'u8', [('u8', 'x')], Block([If(B('>', V('x'), C(100)), ret(C(100))), ret(V('x'))]))],
        [A(V('vb'), B('+', Call('f', [V('va')]), Call('f', [V('vc')])))])
    add('inl/cond_call', [F('f', 'u8', [('u8', 'x')], Block([ret(B('&', V('x'), C(1)))]))],
        [If(B('&&', Call('f', [V('va')]), Call('f', [V('vb')])), A(V('vc'), C(1)), A(V('vc'), C(2)))])
    add('inl/y_index', [F('f', 'u8', [], Block([ret(Index('arr', V('Y')))]))], [A(V('Y'), C(1)), A(V('va'), Call('f', [])), inc('Y'), A(V('vb'), Call('f', []))])
    add('inl/short_ret', [F('f', 'u16', [('u16', 'x')], Block([If(B('==', V('x'), C(0)), ret(C(0x1234))), ret(B('+', V('x'), C(1)))]))], [A(V('wa'), Call('f', [V('wb')])), A(V('wc'), Call('f', [V('wa')]))])
    # a register / variable loaded with a constant and compared with a constant inside an inline body: the optimiser of the caller
    # sees the copy (protected branches of <= and > must stay protected)
    for rn, k, op, k2 in itertools.product(('X', 'Y', 'va'), (0, 3, 5, 255), ('<=', '>', '<', '>=', '==', '!='), (0, 3, 4)):
        pid = 'inl/regconst/%s=%d%s%d' % (rn, k, op, k2)
        if not families.stable_pick(pid, 100, 60): continue
        add(pid, [F('g', None, [], Block([A(V(rn), C(k)), If(B(op, V(rn), C(k2)), A(V('vc'), C(1)), A(V('vc'), C(2)))]))], [A(V('vd'), C(0)), ExprS(Call('g', [])), inc('vd')], extra=['vc'])
    # a conditional branch of the caller that spans inlined bodies containing jumps, with the distance swept across the
    # short-branch limit: the copied lines must keep their sizes for the long-branch repair (and the call must still behave the same)
    nops = lambda n: [Raw('asm', 'NOP', 1) for _ in range(n)]
    for k in range(30, 126):
        g = lambda: F('g', None, [], Block([If(V('vd'), Block([A(V('vd'), C(0)), Return()])), If(B('<', V('sb'), C(3)), inc('sb'), A(V('sb'), C(0)))]))
        add('inl/window/if/%d' % k, [g()], [If(B('==', V('va'), V('vb')), Block([A(V('vc'), C(1))] + nops(k) + [ExprS(Call('g', [])), ExprS(Call('g', []))])), A(V('X'), C(7))], extra=['vd', 'sb'])
        if k % 2 == 0:
            add('inl/window/loop/%d' % k, [g()], [A(V('vc'), C(2)), DoWhile(Block(nops(k) + [ExprS(Call('g', [])), dec('vc')]), V('vc'))], extra=['vd', 'sb'])
            add('inl/window/else/%d' % k, [g()], [If(B('<', V('va'), V('vb')), Block(nops(k) + [ExprS(Call('g', []))]), Block([ExprS(Call('g', []))] + nops(k))), A(V('X'), C(7))], extra=['vd', 'sb'])
    return P


def variants(p):
    names = [f.name for f in p.funcs]
    out = [('none', [], None)]
    for r in range(1, len(names) + 1):
        for sub in itertools.combinations(names, r):
            def tr(p, sub=sub):
                q = copy.deepcopy(p)
                for f in q.funcs: f.inline = f.name in sub
                return q.c()
            out.append(('inline:' + '+'.join(sub), [], tr))
    return out


def run(tier):
    rep = common.Report('C14', tier, 'translation_validation')
    common.build_driver()
    import families4
    # two returns leaving different constants, then a statement that needs one of them (register knowledge at the end-of-inline label)
    progs = families2.g_call(tier) + extra_programs() + [p for p in families4.g_jmp_label(tier) if '/fn-' in p.pid]
    allstats, samples = {}, []
    for lvl in (['-O1'], ['-O0']):
        stats, smp, results = runner.relational(rep, progs, variants, 'none', args_base=lvl,
                                                key_fn=None)
        allstats[lvl[0]] = dict(stats); samples += smp[:3]
    tot = lambda k: sum(s.get(k, 0) for s in allstats.values())
    rep.cov = dict(programs=tot('accepted'), disagreements_checked=tot('disagreements_checked'), samples=samples, variant_pairs=tot('variants'),
                   identical_by_text=tot('identical_by_text'), decided_by_solver=tot('decided'), variant_rejected=tot('variant_err'),
                   unsupported=tot('unsupported'), bound_hits=tot('bound_hits'), queries=tot('queries'), solver_s=round(tot('solver_s'), 1),
                   bounds=dict(families='G-call + inlining shapes', subsets='every non-empty subset of the callees', levels=['-O1', '-O0']), stats=allstats)
    rep.assumptions = ['as C02; a variant rejected by the compiler (e.g. inline function used before definition) is counted, not compared']
    return rep.finish()

"""Generic relational translation-validation runner: compile variants with the real compiler, decide
equivalence of the emitted code over all initial machine states with z3, replay every model concretely."""
import os, re, sys, time, json, multiprocessing, collections, traceback
sys.path.insert(0, os.path.join(os.path.dirname(os.path.abspath(__file__)), '..', 'lib'))
import common
from common import compile_many, Report, EngineError


def code_hash(c):
    import hashlib
    return hashlib.sha1('\n'.join('%s:\n%s' % (f, '\n'.join(strip_text(c.funcs[f]['lines']))) for f in c.order if c.funcs[f]['has_code']).encode()).hexdigest()[:8]


def strip_text(lines):
    # instruction stream without comment lines and without the cycle annotations of --insert-code
    out = []
    for l in lines:
        if l.startswith(';'): continue
        l = l.split(';')[0].rstrip()
        if l.strip() != '': out.append(' '.join(l.split()) if l[0].isspace() else l)
    return out


def same_text(ca, cb):
    fa = [f for f in ca.order if ca.funcs[f]['has_code']]
    fb = [f for f in cb.order if cb.funcs[f]['has_code']]
    if fa != fb: return False
    return all(strip_text(ca.funcs[f]['lines']) == strip_text(cb.funcs[f]['lines']) for f in fa)


def _task(t):
    """t: dict(pid, src_a, src_b, ja, jb, names, label_a, label_b, opts). Runs in a worker process."""
    import z3
    from equiv import Session, confirm
    from sym6502 import Unsupported, AsmError
    t0 = time.time()
    res = dict(pid=t['pid'], label=t['label_b'])
    try:
        ca, cb = common.Compiled(t['ja']), common.Compiled(t['jb'])
        o = t.get('opts', {})
        S = Session(max_back=o.get('max_back', 40), max_steps=o.get('max_steps', 3000), max_paths=o.get('max_paths', 300))
        hw = set(o['hw']) if o.get('hw') else None
        try:
            va = S.variant(ca, hw=hw)
        except AsmError as e:
            res.update(verdict='noasm_a', msg=str(e)); return res
        try:
            vb = S.variant(cb, hw=hw)
        except AsmError as e:
            res.update(verdict='noasm_b', msg=str(e)); return res
        for k, val in o.get('assume_regs', {}).items():
            S.assume(z3.BitVec(k + '0', 8) == val, ('reg', k, val))
        for k, val in o.get('assume_lt', {}).items():
            S.assume(z3.ULT(z3.BitVec(k[0] + '0', 8), val), ('reglt', k, val))
        out = S.compare(va, vb, t['names'], events=o.get('events', False))
        res.update(verdict=out.verdict, queries=S.queries, solver_s=round(S.solver_s, 3), pairs=getattr(out, 'pairs', 0),
                   bound_hits=getattr(out, 'bound_hits', 0), paths=getattr(out, 'paths', None))
        if out.verdict in ('diff', 'termdiff'):
            ok, detail = confirm(S, out, va, vb, t['names'], events=o.get('events', False))
            res['confirmed'] = ok
            res['detail'] = detail
            if not ok: res['verdict'] = ('bound_mismatch' if out.verdict == 'termdiff' else 'unconfirmed_' + out.verdict)
            else:
                try: res['sig'] = S.can_differ(va, vb, t['names'], events=o.get('events', False))
                except Unsupported: res['sig'] = None
    except Unsupported as e:
        res.update(verdict='unsupported', msg=str(e))
    except Exception as e:
        res.update(verdict='engine_error', msg=traceback.format_exc()[-1500:])
    res['wall'] = round(time.time() - t0, 3)
    return res


def run_tasks(tasks, jobs=None):
    jobs = jobs or common.NCPU
    if not tasks: return []
    ctx = multiprocessing.get_context('fork')
    with ctx.Pool(jobs) as pool:
        return list(pool.imap_unordered(_task, tasks, chunksize=4))


def relational(report, progs, variants, base_label, names_fn=None, opts=None, key_fn=None, what='', args_base=(), reject_is_violation=False):
    """progs: iterable of cast.Prog (or objects with pid, c(), gnames()).
    variants: list of (label, args list, transform(src)->src or None). The first entry is the base.
    Returns stats Counter. Violations are added to report."""
    progs = list(progs)
    reqs = []
    srcs = {}
    vfn = variants if callable(variants) else (lambda p: variants)
    pv = {}
    for p in progs:
        src = p.c()
        srcs[p.pid] = src
        pv[p.pid] = list(vfn(p))
        for label, args, tr in pv[p.pid]:
            s2 = tr(p) if tr else src
            if s2 is None: continue
            reqs.append(('%s@%s' % (p.pid, label), list(args_base) + list(args), s2))
    t0 = time.time()
    R = compile_many(reqs)
    stats = collections.Counter()
    stats['compile_s'] = round(time.time() - t0, 1)
    tasks = []
    samples = []
    reqsrc = {i: s for i, _, s in reqs}
    for p in progs:
        base = R.get('%s@%s' % (p.pid, base_label))
        if base is None: continue
        stats['programs'] += 1
        if base.status != 'ok':
            stats['base_' + str(base.status)] += 1
            continue
        if 'main' not in base.funcs or not base.funcs['main']['has_code']:
            stats['base_nomain'] += 1; continue
        stats['accepted'] += 1
        names = names_fn(p) if names_fn else p.gnames()
        for label, args, tr in pv[p.pid]:
            if label == base_label: continue
            rid = '%s@%s' % (p.pid, label)
            if rid not in R: continue
            c = R[rid]
            stats['variants'] += 1
            if c.status != 'ok':
                # the variant is rejected while the base is accepted: not a behavioural difference of emitted code
                stats['variant_' + str(c.status)] += 1
                if c.status in ('panic', 'timeout', 'crash'):
                    stats['variant_crash'] += 1
                if reject_is_violation or c.status in ('panic', 'timeout', 'crash'):
                    report.violation('reject:%s@%s' % (p.pid, label), '%s: accepted as %s but %s as %s: %s' % (p.pid, base_label, c.status, label, c.msg),
                                     dict(kind='tv-reject', pid=p.pid, base=base_label, variant=label, args_variant=list(args_base) + list(args),
                                          source_base=reqsrc['%s@%s' % (p.pid, base_label)], source_variant=reqsrc[rid], status=c.status, msg=c.msg))
                continue
            if same_text(base, c):
                stats['identical_by_text'] += 1; continue
            args_a = list(args_base) + [a for l2, a2, _ in pv[p.pid] if l2 == base_label for a in a2]
            tasks.append(dict(pid=p.pid, ja=base.j, jb=c.j, names=names, label_a=base_label, label_b=label, opts=opts or {}, args_a=args_a,
                              src_a=reqsrc['%s@%s' % (p.pid, base_label)], src_b=reqsrc[rid], args_b=list(args_base) + list(args)))
    tmap = {(t['pid'], t['label_b']): t for t in tasks}
    t1 = time.time()
    results = run_tasks(tasks)
    stats['solve_wall_s'] = round(time.time() - t1, 1)
    for r in results:
        stats['decided' if r['verdict'] == 'equal' else r['verdict']] += 1
        stats['queries'] += r.get('queries', 0); stats['solver_s'] += r.get('solver_s', 0); stats['bound_hits'] += r.get('bound_hits', 0) or 0
        t = tmap[(r['pid'], r['label'])]
        if r['verdict'] in ('diff', 'termdiff'):
            stats['disagreements_checked'] += 1
            key = (key_fn(r['pid'], r['label']) if key_fn else '%s@%s#%s' % (r['pid'], r['label'], code_hash(common.Compiled(t['jb']))))
            rep = dict(kind='tv-relational', pid=r['pid'], base=base_label, variant=r['label'], source_base=t['src_a'], source_variant=t['src_b'],
                       args_variant=t['args_b'], args_base=t['args_a'], initial_state=r['detail'].get('regs'), memory=r['detail'].get('mem'),
                       differences=r['detail'].get('diffs'), termination=r['detail'].get('termination'),
                       code_base=common.Compiled(t['ja']).funcs, code_variant=common.Compiled(t['jb']).funcs)
            report.violation(key, '%s: %s vs %s differ on %s: %s' % (r['pid'], base_label, r['label'], r['detail'].get('regs'),
                                                                     r['detail'].get('diffs') or r['detail'].get('termination')), rep, sig=r.get('sig') or (['termination'] if r['verdict'] == 'termdiff' else None))
        elif r['verdict'].startswith('unconfirmed'):
            stats['disagreements_checked'] += 1
            report.inconc('model for %s@%s did not reproduce concretely (engine error)' % (r['pid'], r['label']))
        elif r['verdict'] == 'engine_error':
            report.inconc('engine error on %s@%s: %s' % (r['pid'], r['label'], r.get('msg', '')[-300:]))
        elif r['verdict'] == 'noasm_a':
            stats['base_does_not_assemble'] += 1      # reported by C01 (reference check), not a relational difference
        elif r['verdict'] == 'noasm_b':
            stats['does_not_assemble'] += 1
            key = 'noasm:%s@%s' % (r['pid'], r['label'] if r['verdict'] == 'noasm_b' else base_label)
            report.violation(key, '%s: emitted code does not assemble: %s' % (r['pid'], r.get('msg')),
                             dict(kind='tv-noasm', pid=r['pid'], source=t['src_b' if r['verdict'] == 'noasm_b' else 'src_a'], msg=r.get('msg')))
        if len(samples) < 6 and r['verdict'] == 'equal':
            samples.append(dict(program=t['src_a'], base=base_label, variant=r['label'], verdict='equivalent for all initial states',
                                paths=r.get('paths'), queries=r.get('queries'), solver_s=r.get('solver_s')))
    return stats, samples, results


# ----------------------------------------------------------------------------------------------- reference (C01)
def _task_ref(t):
    import z3
    from equiv import Session, run_concrete, concrete_obs, PTR_LO, PTR_HI
    from sym6502 import Unsupported, AsmError, bv8, is_c
    t0 = time.time()
    res = dict(pid=t['pid'], label=t['label'])
    try:
        c = common.Compiled(t['j'])
        prog = t['prog']
        o = t.get('opts', {})
        verdicts = {}
        for mode in ('ISO', 'W8'):
            S = Session(max_back=o.get('max_back', 40), max_steps=o.get('max_steps', 3000), max_paths=o.get('max_paths', 300))
            try:
                v = S.variant(c)
            except AsmError as e:
                res.update(verdict='noasm', msg=str(e)); return res
            ref = S.run_ref(v, prog, mode, hw_names=o.get('hw_names'))
            out = S.compare(v, v, prog.gnames(), runs_a=ref)
            res['queries'] = res.get('queries', 0) + S.queries; res['solver_s'] = round(res.get('solver_s', 0) + S.solver_s, 3)
            verdicts[mode] = out.verdict
            res['paths'] = getattr(out, 'paths', None); res['bound_hits'] = getattr(out, 'bound_hits', 0)
            if out.verdict == 'equal':
                res['verdict'] = 'equal'; res['mode'] = mode; break
            # replay: machine concretely, reference by evaluating its path terms under the model
            regs, mem = S.concretize(out.model, (v,))
            det = dict(regs=regs, mode=mode, kind=out.verdict)
            if out.verdict == 'diff':
                sm = run_concrete(v, regs, mem)
                m = out.model
                ra = out.a
                refobs = {}
                for n, a, nb, vv in v.layout.ram:
                    if n in prog.gnames():
                        for k in range(nb): refobs['%s+%d' % (n, k)] = m.eval(bv8(ra.M.load(a + k)), model_completion=True).as_long()
                refobs['X'] = m.eval(bv8(ra.X), model_completion=True).as_long(); refobs['Y'] = m.eval(bv8(ra.Y), model_completion=True).as_long()
                for a in range(PTR_LO, PTR_HI + 1):
                    refobs['mem[%04x]' % a] = m.eval(bv8(ra.M.load(a)), model_completion=True).as_long()
                if sm is None:
                    det['termination'] = 'emitted code does not terminate, reference does'; det['confirmed'] = True
                else:
                    mo = concrete_obs(v, prog.gnames(), sm)
                    diffs = {k: dict(expected=refobs[k], got=mo[k]) for k in refobs if refobs[k] != mo.get(k)}
                    det['diffs'] = dict(list(diffs.items())[:10]); det['confirmed'] = bool(diffs)
                det['mem'] = {('%04x' % a): x for a, x in mem.items() if x != 0 and (0x80 <= a < 0x200 or a >= 0x1000)}
            else:
                sm = run_concrete(v, regs, mem, max_steps=300000)
                det['termination'] = 'who=%s' % out.who; det['confirmed'] = (sm is None) == (out.who == 'b')
            res.setdefault('details', {})[mode] = det
            if not det['confirmed']:
                res['verdict'] = 'unconfirmed'; return res
            if mode == 'ISO':
                try: res['sig'] = S.can_differ(v, v, prog.gnames(), runs_a=ref)
                except Unsupported: res['sig'] = None
        else:
            res['verdict'] = 'diff'
        res['verdicts'] = verdicts
    except Unsupported as e:
        res.update(verdict='unsupported', msg=str(e))
    except Exception as e:
        res.update(verdict='engine_error', msg=traceback.format_exc()[-1500:])
    res['wall'] = round(time.time() - t0, 3)
    return res


def against_reference(report, progs, levels=(('O1', ['-O1']), ('O0', ['-O0'])), opts=None, key_fn=None, jobs=None):
    progs = list(progs)
    reqs = []
    for p in progs:
        src = p.c()
        for label, args in levels:
            reqs.append(('%s@%s' % (p.pid, label), list(args), src))
    t0 = time.time()
    R = compile_many(reqs)
    stats = collections.Counter(); stats['compile_s'] = round(time.time() - t0, 1)
    tasks, samples = [], []
    for p in progs:
        stats['programs'] += 1
        first = True
        prev = None
        for label, args in levels:
            c = R['%s@%s' % (p.pid, label)]
            if c.status != 'ok':
                if first: stats['rejected_' + str(c.status)] += 1
                first = False; continue
            if 'main' not in c.funcs: continue
            if first: stats['accepted'] += 1
            first = False
            if prev is not None and same_text(prev, c):
                stats['identical_to_previous_level'] += 1; continue
            prev = c
            tasks.append(dict(pid=p.pid, label=label, j=c.j, prog=p, opts=opts or {}, src=p.c(), args=list(args)))
    tmap = {(t['pid'], t['label']): t for t in tasks}
    t1 = time.time()
    ctx = multiprocessing.get_context('fork')
    with ctx.Pool(jobs or common.NCPU) as pool:
        results = list(pool.imap_unordered(_task_ref, tasks, chunksize=4))
    stats['solve_wall_s'] = round(time.time() - t1, 1)
    for r in results:
        stats['decided' if r['verdict'] == 'equal' else r['verdict']] += 1
        if r['verdict'] == 'equal' and r.get('mode') == 'W8': stats['equal_only_under_W8'] += 1
        stats['queries'] += r.get('queries', 0); stats['solver_s'] += r.get('solver_s', 0); stats['bound_hits'] += r.get('bound_hits', 0) or 0
        t = tmap[(r['pid'], r['label'])]
        if r['verdict'] == 'diff':
            stats['disagreements_checked'] += 1
            c = common.Compiled(t['j'])
            key = '%s@%s#%s' % (r['pid'], r['label'], code_hash(c))
            d = r['details']
            rep = dict(kind='tv-reference', pid=r['pid'], level=r['label'], args=t['args'], source=t['src'], details=d, code={f: c.funcs[f]['lines'] for f in c.order})
            report.violation(key, '%s (%s): emitted code differs from the C meaning (both readings); ISO: %s %s' % (
                r['pid'], r['label'], d['ISO'].get('regs'), d['ISO'].get('diffs') or d['ISO'].get('termination')), rep, sig=r.get('sig'))
        elif r['verdict'] == 'unconfirmed':
            stats['disagreements_checked'] += 1
            report.inconc('model for %s@%s did not reproduce concretely (engine error): %s' % (r['pid'], r['label'], json.dumps(r.get('details'), default=str)[:300]))
        elif r['verdict'] == 'engine_error':
            report.inconc('engine error on %s@%s: %s' % (r['pid'], r['label'], r.get('msg', '')[-400:]))
        elif r['verdict'] == 'noasm':
            report.violation('noasm:%s@%s#%s' % (r['pid'], r['label'], code_hash(common.Compiled(t['j']))), '%s: emitted code does not assemble: %s' % (r['pid'], r.get('msg')),
                             dict(kind='tv-noasm', pid=r['pid'], source=t['src'], msg=r.get('msg')), sig=['noasm: ' + re.sub(r'\d+', 'N', str(r.get('msg')))])
        if len(samples) < 8 and r['verdict'] == 'equal' and (r.get('queries') or 0) > 0:
            samples.append(dict(program=t['src'], level=r['label'], verdict='emitted code = C meaning (%s) for all initial states' % r.get('mode'),
                                paths=r.get('paths'), queries=r.get('queries'), solver_s=r.get('solver_s')))
    return stats, samples, results

"""Reference semantics of the generated C subset: a path-based evaluator over my own AST producing z3 terms over
the same flat memory (layout of the compiled program) as sym6502. Two readings (DESIGN 3.3): 'ISO' (integer
promotion to 16-bit int) and 'W8' (evaluate at the width of the widest operand/destination)."""
import z3
from cast import *
from sym6502 import Mem, bv8, bv16, is_c, simp, Unsupported, zb

W = {'u8': 8, 's8': 8, 'u16': 16, 's16': 16}
SG = {'u8': False, 's8': True, 'u16': False, 's16': True}


class Val:
    __slots__ = ('t', 'ty', 'k')
    def __init__(self, t, ty, k=None): self.t, self.ty, self.k = t, ty, k      # t: z3 BitVec of width W[ty]; k: literal value if a constant


def K(n, w): return z3.BitVecVal(n & ((1 << w) - 1), w)


def conv(v, ty):
    """C conversion of v to type ty"""
    w0, w1 = W[v.ty], W[ty]
    if w0 == w1: return Val(v.t, ty)
    if w0 > w1: return Val(z3.simplify(z3.Extract(w1 - 1, 0, v.t)), ty)
    return Val(z3.simplify(z3.SignExt(8, v.t) if SG[v.ty] else z3.ZeroExt(8, v.t)), ty)


class RState:
    """reference machine state, shaped like sym6502.State for equiv.compare()"""
    def __init__(self, M, X, Y):
        self.M, self.X, self.Y = M, X, Y
        self.loc = {}        # locals / parameters: name -> Val
        self.pcond = []
        self.events = []
        self.iters = 0
    def clone(self):
        s = RState(self.M.clone(), self.X, self.Y); s.loc = dict(self.loc); s.pcond = list(self.pcond); s.events = list(self.events); s.iters = self.iters
        return s


class Sig:
    def __init__(self, kind, val=None): self.kind, self.val = kind, val


CANON = {'pc8': 'u8', 'pi16': 's16', 'ps16': 's16'}     # plain `char` is unsigned, plain `int` / `short` are signed (no -fsigned-char option in the families)


def canonical(prog):
    """a copy of the program with the spelling-only type codes (plain char / int / short) replaced by their meaning"""
    import copy
    q = copy.deepcopy(prog)
    ct = lambda t: (('arr', CANON.get(t[1], t[1]), t[2]) if isinstance(t, tuple) else CANON.get(t, t))
    q.globs = [(ct(t), n) for t, n in q.globs]
    def blocks(b):
        if isinstance(b, Block): b.decls = [(ct(t), n, i) for t, n, i in b.decls]
        for k in b.kids(): blocks(k)
    for f in q.funcs:
        f.params = [(ct(t), n) for t, n in f.params]; f.ret = ct(f.ret) if f.ret else f.ret
        blocks(f.body)
    blocks(q.main)
    return q


class Ref:
    def __init__(self, prog, layout, sess, mode='ISO', max_iters=40, max_paths=300, hw=None):
        prog = canonical(prog)
        self.P, self.L, self.S, self.mode = prog, layout, sess, mode
        self.max_iters, self.max_paths = max_iters, max_paths
        self.gt = prog.gtypes()
        self.funcs = {f.name: f for f in prog.funcs}
        for f in prog.funcs:
            f._locals = []
            def coll(b):
                if isinstance(b, Block):
                    for t, n, _ in b.decls: f._locals.append((t, n))
                for k in b.kids(): coll(k)
            coll(f.body)
        self.hw = hw or {}
        self.bound_hits = []
        self.npaths = 0

    # ------------------------------------------------------------------ lvalues
    def addr_of(self, name):
        if name not in self.L.sym: raise Unsupported('no address for ' + name)
        return self.L.sym[name]

    def scope_lookup(self, st, name, fn):
        """-> ('reg'|'loc'|'glob', key, type)"""
        if name in ('X', 'Y'): return ('reg', name, 'u8')
        if fn is not None:
            k = self.localkey(fn, name)
            if k is not None: return ('loc', k[0], k[1])
        if name in self.gt: return ('glob', name, self.gt[name])
        raise Unsupported('unknown name ' + name)

    def localkey(self, fn, name):
        for t, n in fn.params:
            if n == name: return (fn.name + '.' + name, t)
        for t, n in getattr(fn, '_locals', []):
            if n == name: return (fn.name + '.' + name, t)
        return None

    def load8(self, st, a): return bv8(st.M.load(a))
    def loadvar(self, st, name, ty):
        a = self.addr_of(name)
        if W[ty] == 8: return Val(self.load8(st, a), ty)
        return Val(z3.simplify(z3.Concat(self.load8(st, a + 1), self.load8(st, a))), ty)
    def storevar(self, st, name, v):
        a = self.addr_of(name)
        if W[v.ty] == 8: st.M.store(a, simp(v.t))
        else:
            st.M.store(a, simp(z3.Extract(7, 0, v.t))); st.M.store(a + 1, simp(z3.Extract(15, 8, v.t)))

    def read_lv(self, st, lv, fn):
        """lv resolved -> Val ; lv = ('reg',n)|('loc',k,ty)|('glob',n,ty)|('elem',arr,ety,n,idxterm8/16)|('mem',addrterm16)"""
        k = lv[0]
        if k == 'reg': return Val(bv8(st.X if lv[1] == 'X' else st.Y), 'u8')
        if k == 'loc':
            if lv[1] not in st.loc: raise Unsupported('read of uninitialised local ' + lv[1])
            return st.loc[lv[1]]
        if k == 'glob': return self.loadvar(st, lv[1], lv[2])
        if k == 'elem':
            _, arr, ety, n, idx = lv
            base = self.addr_of(arr)
            a = simp(z3.BitVecVal(base, 16) + idx)
            if W[ety] == 8: return Val(bv8(st.M.load(a)), ety)
            a2 = simp(z3.BitVecVal(base + n, 16) + idx)
            return Val(z3.simplify(z3.Concat(bv8(st.M.load(a2)), bv8(st.M.load(a)))), ety)
        if k == 'mem':
            return Val(bv8(st.M.load(simp(lv[1]))), 'u8')
        raise Unsupported('lvalue ' + k)

    def write_lv(self, st, lv, v):
        k = lv[0]
        if k == 'reg':
            t = simp(conv(v, 'u8').t)
            if lv[1] == 'X': st.X = t
            else: st.Y = t
        elif k == 'loc': st.loc[lv[1]] = conv(v, lv[2])
        elif k == 'glob': self.storevar(st, lv[1], conv(v, lv[2]))
        elif k == 'elem':
            _, arr, ety, n, idx = lv
            base = self.addr_of(arr); v = conv(v, ety)
            if W[ety] == 8: st.M.store(simp(z3.BitVecVal(base, 16) + idx), simp(v.t))
            else:
                st.M.store(simp(z3.BitVecVal(base, 16) + idx), simp(z3.Extract(7, 0, v.t)))
                st.M.store(simp(z3.BitVecVal(base + n, 16) + idx), simp(z3.Extract(15, 8, v.t)))
        elif k == 'mem':
            a = simp(lv[1])
            if is_c(a) and a in self.hw:
                st.events.append(('W', a, simp(conv(v, 'u8').t), 0)); return
            st.M.store(a, simp(conv(v, 'u8').t))
        else: raise Unsupported('lvalue ' + k)

    def lv_type(self, lv):
        return {'reg': lambda: 'u8', 'loc': lambda: lv[2], 'glob': lambda: lv[2], 'elem': lambda: lv[2], 'mem': lambda: 'u8'}[lv[0]]()

    # ------------------------------------------------------------------ expressions: generators of (Val|None, state)
    def lvalue(self, st, e, fn):
        """yields (lv, state)"""
        if isinstance(e, Var):
            k, key, ty = self.scope_lookup(st, e.name, fn)
            if isinstance(ty, tuple) or ty == 'ptr':
                if ty == 'ptr': yield (('glob', key, 'u16'), st); return
                raise Unsupported('array used as lvalue')
            yield ((k, key) if k == 'reg' else (k, key, ty), st); return
        if isinstance(e, Index):
            ty = self.gt.get(e.arr)
            for iv, s in self.rvalue(st, e.idx, fn, 8):
                if ty == 'ptr':
                    p = self.loadvar(s, e.arr, 'u16')
                    i16 = conv(iv, 'u16').t if W[iv.ty] == 8 and not SG[iv.ty] else conv(iv, 'u16').t
                    yield (('mem', p.t + i16), s)
                elif isinstance(ty, tuple):
                    _, ety, n = ty
                    i16 = conv(iv, 'u16').t
                    c = simp(z3.ULT(i16, z3.BitVecVal(n, 16)))     # A-idx: in-range indexing only
                    if c is False: continue
                    if c is not True: s.pcond.append(c)
                    yield (('elem', e.arr, ety, n, i16), s)
                else: raise Unsupported('index of ' + str(ty))
            return
        if isinstance(e, Deref):
            ty = self.gt.get(e.p)
            if ty == 'ptr':
                yield (('mem', self.loadvar(st, e.p, 'u16').t), st); return
            if e.p in self.hw_names():
                yield (('mem', z3.BitVecVal(self.hw_names()[e.p], 16)), st); return
            raise Unsupported('deref of ' + e.p)
        raise Unsupported('not an lvalue')

    def hw_names(self):
        return getattr(self.P, 'hw_names', {})

    def arith_type(self, a, b, ctxw):
        if self.mode == 'W8' and W[a.ty] == 8 and W[b.ty] == 8 and ctxw <= 8:
            if a.k is not None and b.k is None: return b.ty       # a literal adapts to the other operand
            if b.k is not None and a.k is None: return a.ty
            return 's8' if (SG[a.ty] and SG[b.ty]) else 'u8'
        if a.ty == 'u16' or b.ty == 'u16': return 'u16'
        return 's16'

    def promote(self, a, ctxw):
        if self.mode == 'W8' and W[a.ty] == 8 and ctxw <= 8: return a
        return a if W[a.ty] == 16 else conv(a, 's16')

    def const(self, n, ctxw):
        if self.mode == 'W8' and -128 <= n <= 255 and ctxw <= 8:
            return Val(K(n, 8), 's8' if n < 0 else 'u8', n)
        if -32768 <= n <= 32767: return Val(K(n, 16), 's16', n)
        if n <= 65535: return Val(K(n, 16), 'u16', n)
        raise Unsupported('constant out of range')

    def truth(self, v): return z3.simplify(v.t != 0)

    def fork(self, st, c):
        """yields (bool, state) for the feasible outcomes of condition c"""
        c = z3.simplify(c)
        if z3.is_true(c): yield True, st; return
        if z3.is_false(c): yield False, st; return
        t_ok = self.S.check(st.pcond + [c]) is not None
        f_ok = (not t_ok) or self.S.check(st.pcond + [z3.Not(c)]) is not None
        if t_ok and f_ok:
            s2 = st.clone(); s2.pcond.append(c); yield True, s2
            st.pcond.append(z3.simplify(z3.Not(c))); yield False, st
        elif t_ok:
            st.pcond.append(c); yield True, st
        else:
            st.pcond.append(z3.simplify(z3.Not(c))); yield False, st

    def rvalue(self, st, e, fn, ctxw):
        """yields (Val, state). ctxw: width of the consumer (W8 reading)"""
        if isinstance(e, Const):
            yield self.const(e.n, ctxw), st; return
        if isinstance(e, Var):
            k, key, ty = self.scope_lookup(st, e.name, fn)
            if k == 'glob' and e.name in getattr(self.P, 'inits', {}):      # a named constant denotes its value
                yield Val(K(self.P.inits[e.name], W[ty]), ty), st; return
            if isinstance(ty, tuple):       # array name decays to its address
                yield Val(K(self.addr_of(e.name), 16), 'u16'), st; return
            if ty == 'ptr':
                yield self.loadvar(st, e.name, 'u16'), st; return
            yield self.read_lv(st, (k, key) if k == 'reg' else (k, key, ty), fn), st; return
        if isinstance(e, (Index, Deref)):
            for lv, s in self.lvalue(st, e, fn):
                if lv[0] == 'mem':
                    a = simp(lv[1])
                    if is_c(a) and a in self.hw:
                        s.events.append(('R', a, None, 0))
                yield self.read_lv(s, lv, fn), s
            return
        if isinstance(e, Un):
            if e.op == '&':
                if not isinstance(e.e, Var) or e.e.name not in self.gt: raise Unsupported('address of a non-global')
                yield Val(K(self.addr_of(e.e.name), 16), 'u16'), st; return
            if e.op == '!':
                for v, s in self.rvalue(st, e.e, fn, 0):
                    yield self.boolval(z3.Not(self.truth(v)), ctxw), s
                return
            for v, s in self.rvalue(st, e.e, fn, ctxw):
                v = self.promote(v, ctxw)
                yield Val(z3.simplify(-v.t if e.op == '-' else ~v.t), v.ty), s
            return
        if isinstance(e, Flat):
            yield from self.rvalue(st, c_group(e), fn, ctxw); return
        if isinstance(e, Bin):
            op = e.op
            if op in ('&&', '||'):
                for l, s in self.rvalue(st, e.l, fn, 0):
                    for tv, s2 in self.fork(s, self.truth(l)):
                        if (op == '&&') != tv:       # short circuit
                            yield self.boolval(z3.BoolVal(tv), ctxw), s2
                        else:
                            for r, s3 in self.rvalue(s2, e.r, fn, 0):
                                yield self.boolval(self.truth(r), ctxw), s3
                return
            cmp_ = op in ('<', '<=', '>', '>=', '==', '!=')
            sub = 0 if cmp_ else ctxw
            for l, s in self.rvalue(st, e.l, fn, sub):
                if op in ('<<', '>>'):
                    for r, s2 in self.rvalue(s, e.r, fn, 0):
                        lp = self.promote(l, ctxw if op == '<<' else 0)
                        if op == '>>' and self.mode == 'W8': lp = l if W[l.ty] == 8 else lp
                        w = W[lp.ty]
                        sh = conv(r, 'u16').t if w == 16 else z3.simplify(z3.Extract(7, 0, conv(r, 'u16').t))
                        big = z3.UGE(conv(r, 'u16').t, z3.BitVecVal(w, 16))
                        if op == '<<': t = lp.t << sh
                        elif SG[lp.ty]: t = lp.t >> sh
                        else: t = z3.LShR(lp.t, sh)
                        # shifting by >= width is undefined in C: such states are excluded
                        c = z3.simplify(z3.Not(big))
                        if z3.is_false(c): continue
                        if not z3.is_true(c): s2.pcond.append(c)
                        yield Val(z3.simplify(t), lp.ty), s2
                    continue
                for r, s2 in self.rvalue(s, e.r, fn, sub):
                    cw = max(W[l.ty], W[r.ty]) if cmp_ else ctxw
                    ty = self.arith_type(l, r, cw if not cmp_ else 8)
                    a, b = conv(l, ty), conv(r, ty)
                    if cmp_:
                        sg = SG[ty]
                        t = {'<': (a.t < b.t) if sg else z3.ULT(a.t, b.t), '<=': (a.t <= b.t) if sg else z3.ULE(a.t, b.t),
                             '>': (a.t > b.t) if sg else z3.UGT(a.t, b.t), '>=': (a.t >= b.t) if sg else z3.UGE(a.t, b.t),
                             '==': a.t == b.t, '!=': a.t != b.t}[op]
                        yield self.boolval(t, ctxw), s2
                    elif op in ('/',):
                        c = z3.simplify(b.t != 0)
                        if z3.is_false(c): continue
                        if not z3.is_true(c): s2.pcond.append(c)
                        yield Val(z3.simplify((a.t / b.t) if SG[ty] else z3.UDiv(a.t, b.t)), ty), s2
                    else:
                        t = {'+': a.t + b.t, '-': a.t - b.t, '&': a.t & b.t, '|': a.t | b.t, '^': a.t ^ b.t, '*': a.t * b.t}[op]
                        yield Val(z3.simplify(t), ty), s2
            return
        if isinstance(e, Assign):
            # C leaves the order of lvalue/rvalue evaluation open; generated programs have no conflicting side effects
            if e.op == '=':
                for lv, s in self.lvalue(st, e.lv, fn):
                    lt = self.lv_type(lv)
                    for v, s2 in self.rvalue(s, e.e, fn, W[lt]):
                        self.write_lv(s2, lv, v)
                        yield conv(v, lt), s2
                return
            bop = e.op[:-1]
            for lv, s in self.lvalue(st, e.lv, fn):
                lt = self.lv_type(lv)
                cur = self.read_lv(s, lv, fn)
                tmp = TmpVal(cur)
                for v, s2 in self.rvalue(s, Bin(bop, tmp, e.e), fn, W[lt]):
                    self.write_lv(s2, lv, v)
                    yield conv(v, lt), s2
            return
        if isinstance(e, TmpVal):
            yield e.v, st; return
        if isinstance(e, Inc):
            for lv, s in self.lvalue(st, e.lv, fn):
                lt = self.lv_type(lv)
                cur = self.read_lv(s, lv, fn)
                new = Val(z3.simplify(cur.t + (1 if e.op == '++' else -1)), lt)
                self.write_lv(s, lv, new)
                yield (new if e.prefix else cur), s
            return
        if isinstance(e, Tern):
            for c, s in self.rvalue(st, e.cnd, fn, 0):
                for tv, s2 in self.fork(s, self.truth(c)):
                    yield from self.rvalue(s2, e.a if tv else e.b, fn, ctxw)
            return
        if isinstance(e, Comma):
            for _, s in self.rvalue(st, e.a, fn, 0):
                yield from self.rvalue(s, e.b, fn, ctxw)
            return
        if isinstance(e, Call):
            yield from self.call(st, e, fn); return
        raise Unsupported('expression ' + type(e).__name__)

    def boolval(self, c, ctxw):
        c = z3.simplify(c)
        if self.mode == 'W8' and ctxw <= 8:
            return Val(z3.simplify(z3.If(c, K(1, 8), K(0, 8))), 'u8')
        return Val(z3.simplify(z3.If(c, K(1, 16), K(0, 16))), 's16')

    def call(self, st, e, fn):
        f = self.funcs.get(e.f)
        if f is None: raise Unsupported('call of unknown function')
        def args(k, s, acc):
            if k == len(e.args):
                yield acc, s; return
            for v, s2 in self.rvalue(s, e.args[k], fn, W[f.params[k][0]] if f.params[k][0] in W else 16):
                yield from args(k + 1, s2, acc + [v])
        for vals, s in args(0, st, []):
            for (t, n), v in zip(f.params, vals):
                s.loc[f.name + '.' + n] = conv(v, t if t in W else 'u16')
            for sig, s2 in self.exec(s, f.body, f):
                if sig is not None and sig.kind == 'return':
                    if sig.val is not None and f.ret is not None: yield conv(sig.val, f.ret), s2
                    else: yield Val(K(0, 8), 'u8'), s2
                elif sig is None:
                    yield Val(K(0, 8), 'u8'), s2
                else: raise Unsupported('signal %s escapes function' % sig.kind)

    # ------------------------------------------------------------------ statements: generators of (Sig|None, state)
    def exec(self, st, s, fn):
        if isinstance(s, ExprS):
            for _, s2 in self.rvalue(st, s.e, fn, 0 if not isinstance(s.e, (Assign, Inc)) else 0):
                yield None, s2
            return
        if isinstance(s, Block):
            if s.decls:
                if fn is None: raise Unsupported('locals in main: use a Func')
            def seq(k, state):
                if k == len(s.stmts):
                    yield None, state; return
                for sig, s2 in self.exec(state, s.stmts[k], fn):
                    if sig is None: yield from seq(k + 1, s2)
                    elif sig.kind == 'goto' and any(isinstance(x, Label) and x.l == sig.val for x in s.stmts):
                        idx = [i for i, x in enumerate(s.stmts) if isinstance(x, Label) and x.l == sig.val][0]
                        s2.iters += 1
                        if s2.iters > self.max_iters: self.bound_hits.append(s2); continue
                        yield from seq(idx, s2)
                    else: yield sig, s2
            def decls(k, state):
                if k == len(s.decls):
                    yield from seq(0, state); return
                t, n, init = s.decls[k]
                if init is None:
                    yield from decls(k + 1, state); return
                for v, s2 in self.rvalue(state, init, fn, W[t]):
                    s2.loc[fn.name + '.' + n] = conv(v, t)
                    yield from decls(k + 1, s2)
            yield from decls(0, st); return
        if isinstance(s, If):
            for c, s1 in self.rvalue(st, s.cnd, fn, 0):
                for tv, s2 in self.fork(s1, self.truth(c)):
                    if tv: yield from self.exec(s2, s.a, fn)
                    elif s.b is not None: yield from self.exec(s2, s.b, fn)
                    else: yield None, s2
            return
        if isinstance(s, (While, DoWhile, For)):
            yield from self.loop(st, s, fn); return
        if isinstance(s, Switch):
            for v, s1 in self.rvalue(st, s.e, fn, 0):
                vals = [cv for cv, _ in s.cases if cv is not None]
                def from_case(k, state):
                    # fall through from case k
                    stmts = [x for _, body in s.cases[k:] for x in body]
                    for sig, s2 in self.exec(state, Block(stmts), fn):
                        if sig is not None and sig.kind == 'break': yield None, s2
                        else: yield sig, s2
                def pick(k, state):
                    if k == len(s.cases):
                        d = [i for i, (cv, _) in enumerate(s.cases) if cv is None]
                        if d: yield from from_case(d[0], state)
                        else: yield None, state
                        return
                    cv, _ = s.cases[k]
                    if cv is None:
                        yield from pick(k + 1, state); return
                    cst = conv(self.const(cv, 0), v.ty) if W[v.ty] == 16 else Val(K(cv, 8), v.ty)
                    for tv, s2 in self.fork(state, v.t == cst.t):
                        if tv: yield from from_case(k, s2)
                        else: yield from pick(k + 1, s2)
                yield from pick(0, s1)
            return
        if isinstance(s, Break): yield Sig('break'), st; return
        if isinstance(s, Continue): yield Sig('continue'), st; return
        if isinstance(s, Return):
            if s.e is None: yield Sig('return'), st
            else:
                w = W.get(fn.ret, 16) if fn is not None and fn.ret else 0
                for v, s2 in self.rvalue(st, s.e, fn, w): yield Sig('return', v), s2
            return
        if isinstance(s, Goto): yield Sig('goto', s.l), st; return
        if isinstance(s, Label): yield from self.exec(st, s.st, fn); return
        if isinstance(s, Raw):
            yield from self.raw(st, s, fn); return
        raise Unsupported('statement ' + type(s).__name__)

    def raw(self, st, s, fn):
        if s.kind in ('csleep',):
            st.events.append(('csleep', s.arg, None, 0)); yield None, st; return
        if s.kind == 'asm':
            st.events.append(('asm', s.arg, None, 0)); yield None, st; return
        if s.kind == 'strobe':
            a = self.hw_names().get(s.arg.name if isinstance(s.arg, Var) else None)
            if a is None: raise Unsupported('strobe operand')
            st.events.append(('W', a, None, 0)); yield None, st; return
        if s.kind == 'load' and isinstance(s.arg, E) and not isinstance(s.arg, Deref):
            # load(e) of an ordinary value: e is evaluated (its side effects happen), the value goes to the accumulator only
            for _, s2 in self.rvalue(st, s.arg, fn, 0): yield None, s2
            return
        raise Unsupported('raw statement ' + s.kind)    # store / load of a hardware register have no C meaning: relational checks only

    def loop(self, st, s, fn):
        def body_then(state, first):
            # returns outcomes after running body once: (continue_loop: bool, sig, state)
            for sig, s2 in self.exec(state, s.body, fn):
                if sig is None or sig.kind == 'continue': yield True, None, s2
                elif sig.kind == 'break': yield False, None, s2
                else: yield False, sig, s2
        def test(state):
            cnd = s.cnd
            if cnd is None:
                yield True, state; return
            for c, s1 in self.rvalue(state, cnd, fn, 0):
                yield from self.fork(s1, self.truth(c))
        def update(state):
            if isinstance(s, For) and s.upd is not None:
                for _, s2 in self.rvalue(state, s.upd, fn, 0): yield s2
            else: yield state
        def iterate(state, check_first):
            work = [(state, check_first)]
            while work:
                cur, chk = work.pop()
                if chk:
                    branches = list(test(cur))
                else:
                    branches = [(True, cur)]
                for tv, s1 in branches:
                    if not tv:
                        yield None, s1; continue
                    s1.iters += 1
                    if s1.iters > self.max_iters:
                        self.bound_hits.append(s1); continue
                    for cont, sig, s2 in body_then(s1, False):
                        if not cont: yield sig, s2
                        else:
                            for s3 in update(s2): work.append((s3, True))
        if isinstance(s, For) and s.init is not None:
            for _, s1 in self.rvalue(st, s.init, fn, 0):
                yield from iterate(s1, True)
        else:
            yield from iterate(st, not isinstance(s, DoWhile))

    def run(self, st0):
        outs = []
        for sig, s in self.exec(st0, self.P.main, None):
            if sig is not None and sig.kind not in ('return',): raise Unsupported('signal escapes main: ' + sig.kind)
            outs.append(s)
            if len(outs) > self.max_paths: raise Unsupported('reference path explosion')
        return outs


class TmpVal(E):
    def __init__(self, v): self.v = v
    def c(self): return '<tmp>'


def c_group(flat):
    """group a Flat operand/operator list by C precedence and associativity (all listed binary ops are left-assoc)"""
    items = list(flat.items)
    out, ops = [items[0]], []
    def reduce_():
        r = out.pop(); l = out.pop(); out.append(Bin(ops.pop(), l, r))
    i = 1
    while i < len(items):
        op, rhs = items[i], items[i + 1]
        while ops and PREC[ops[-1]] >= PREC[op]: reduce_()
        ops.append(op); out.append(rhs); i += 2
    while ops: reduce_()
    return out[0]

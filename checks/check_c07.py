"""C07 Conditional compilation keeps exactly the active text.
E-MIR: one step of the three-state machine of cpp::process is executed from the rustc MIR of the current tree, started at the
directive-dispatch block with a concrete directive line and SYMBOLIC state, saved state (stack top), macro definedness and
#if/#elif values; z3 decides for every pre-state that the step equals the textbook nesting semantics (mapped through the
representation invariant, whose commutation with the textbook group stack is itself discharged by z3). The expression
evaluator (#if 0/1, !, ==) and end-to-end nestings are cross-checked through the real preprocessor via the compiler driver."""
import itertools, time, collections, re
import z3
import common
from base import *

ACTIVE, INACTIVE, SKIP = 0, 1, 2      # order read from the source enum below


class CutPath(Exception):
    pass


class VecAbs:
    """abstract Vec<State>: unknown older contents (symbolic top / non-emptiness) + concretely pushed items"""
    def __init__(self, top, nonempty): self.top, self.nonempty, self.pushed, self.popped_base = top, nonempty, [], False


def cstr(v):
    v = S(v)
    if isinstance(v, Str) and all(isinstance(x, str) for x in v.parts): return ''.join(v.parts)
    return None


def m_trim(i, p, fr, c, a, d, r): return ret(p, fr, d, r, Str([cstr(a[0]).strip()]))
def m_trim_start(i, p, fr, c, a, d, r): return ret(p, fr, d, r, Str([cstr(a[0]).lstrip()]))
def m_starts(i, p, fr, c, a, d, r):
    s, pat = cstr(a[0]), S(a[1])
    if isinstance(pat, Str): return ret(p, fr, d, r, z3.BoolVal(s.startswith(cstr(pat))))
    return ret(p, fr, d, r, z3.BoolVal(s.startswith(chr(pat.as_long()))))
def m_ends(i, p, fr, c, a, d, r):
    s, pat = cstr(a[0]), S(a[1])
    return ret(p, fr, d, r, z3.BoolVal(s.endswith(cstr(pat) if isinstance(pat, Str) else chr(pat.as_long()))))
def m_split(i, p, fr, c, a, d, r): return ret(p, fr, d, r, Opaque('iter', cstr(a[0]).split(cstr(a[1]))))
def m_splitn(i, p, fr, c, a, d, r): return ret(p, fr, d, r, Opaque('iter', cstr(a[0]).split(chr(a[2].as_long()), a[1].as_long() - 1)))
def m_splitn_blank(i, p, fr, c, a, d, r):
    # splitn(n, |c| c == ' ' || c == '\t') on concrete directive text (the closure is read from the source: blank or tab)
    import re as _re
    return ret(p, fr, d, r, Opaque('iter', _re.split(r'[ \t]', cstr(a[0]), maxsplit=a[1].as_long() - 1)))
def m_next(i, p, fr, c, a, d, r):
    it = S(a[0])
    if not isinstance(it, Opaque) or it.tag != 'iter': raise Unsupported('next on %r' % it)
    if not it.payload: return ret(p, fr, d, r, opt(None))
    return ret(p, fr, d, r, opt(Str([it.payload.pop(0)])))
def m_is_empty(i, p, fr, c, a, d, r): return ret(p, fr, d, r, z3.BoolVal(cstr(a[0]) == ''))
def m_map(i, p, fr, c, a, d, r):
    o = a[0]
    if o.discr == 0: return ret(p, fr, d, r, opt(None))
    span = re.search(r'\{closure@([^}]*)\}', c).group(1)
    name = [n for n in i.ctx.mir.index if 'closure#' in n and ('{closure@%s}' % span) in i.ctx.mir.lines[i.ctx.mir.index[n]]][0]
    b = i.ctx.mir.body(name)
    nf = Frame(b, d, r); nf.env[b.args[0]] = Cell(Opaque('closure')); nf.env[b.args[1]] = Cell(o.fields[('Some', 0)].v)
    if '::map::' in c: nf.post = lambda v: opt(v)
    p.frames.append(nf); return [p]
def m_push(i, p, fr, c, a, d, r):
    S(a[0]).pushed.append(a[1]); p.events.append(('stack.push', a[1], None)); return ret(p, fr, d, r, Opaque('unit'))
def m_pop(i, p, fr, c, a, d, r):
    v = S(a[0])
    if v.pushed: return ret(p, fr, d, r, opt(v.pushed.pop()))
    o = Adt('Option', z3.If(v.nonempty, z3.BitVecVal(1, 8), z3.BitVecVal(0, 8))); o.fields[('Some', 0)] = Cell(v.top); v.popped_base = True
    p.events.append(('stack.pop', None, None)); return ret(p, fr, d, r, o)
def m_isnone(i, p, fr, c, a, d, r):
    o = S(a[0]); dd = o.discr
    e = (dd == 0) if not isinstance(dd, int) else z3.BoolVal(dd == 0)
    return ret(p, fr, d, r, e if c.endswith('is_none') else z3.Not(e))
def m_get_macro(i, p, fr, c, a, d, r):
    nm = cstr(a[1]); o = Adt('Option', z3.If(z3.Bool('defined[%s]' % nm), z3.BitVecVal(1, 8), z3.BitVecVal(0, 8)))
    o.fields[('Some', 0)] = Cell(Ref(Cell(Str(['<value of %s>' % nm]))))
    p.events.append(('get_macro', nm, None))
    return ret(p, fr, d, r, o)
def m_evaluate(i, p, fr, c, a, d, r):
    e = cstr(a[1]); o = Adt('Result', z3.If(z3.Bool('evalerr[%s]' % e), z3.BitVecVal(1, 8), z3.BitVecVal(0, 8)))
    o.fields[('Ok', 0)] = Cell(z3.Bool('eval[%s]' % e)); o.fields[('Err', 0)] = Cell(Opaque('error', 'evaluate')); p.events.append(('evaluate', e, None))
    return ret(p, fr, d, r, o)
def m_replace_all(i, p, fr, c, a, d, r): return ret(p, fr, d, r, S(a[1]))
def m_ok_or_else2(i, p, fr, c, a, d, r):
    o = S(a[0])
    if isinstance(o.discr, int):
        if o.discr == 1:
            x = Adt('Result', 0); x.fields[('Ok', 0)] = o.fields[('Some', 0)]; return ret(p, fr, d, r, x)
        x = Adt('Result', 1); x.fields[('Err', 0)] = Cell(Opaque('error', 'ok_or_else')); p.events.append(('error', 'ok_or_else', None)); return ret(p, fr, d, r, x)
    x = Adt('Result', z3.If(o.discr == 1, z3.BitVecVal(0, 8), z3.BitVecVal(1, 8)))
    x.fields[('Ok', 0)] = o.fields[('Some', 0)]; x.fields[('Err', 0)] = Cell(Opaque('error', 'ok_or_else'))
    return ret(p, fr, d, r, x)
def m_event_ok(tag):
    def f(i, p, fr, c, a, d, r):
        p.events.append((tag, [cstr(x) for x in a[1:]], None)); o = Adt('Result', 0); o.fields[('Ok', 0)] = Cell(Opaque('unit')); return ret(p, fr, d, r, o)
    return f
def m_event_unit(tag):
    def f(i, p, fr, c, a, d, r):
        p.events.append((tag, [cstr(x) for x in a[1:]], None)); return ret(p, fr, d, r, Opaque('unit'))
    return f
def m_opaque(i, p, fr, c, a, d, r): return ret(p, fr, d, r, Opaque(c.split('::')[-1]))
def m_as_bytes(i, p, fr, c, a, d, r): return ret(p, fr, d, r, S(a[0]))
def m_cut(tag):
    def f(i, p, fr, c, a, d, r):
        p.events.append((tag, None, None)); raise CutPath(tag)
    return f
def m_state_eq(i, p, fr, c, a, d, r):
    x, y = S(a[0]), S(a[1])
    e = discr_term(x) == discr_term(y)
    return ret(p, fr, d, r, z3.Not(e) if c.endswith('::ne') else e)
def m_str_eq(i, p, fr, c, a, d, r):
    x, y = cstr(a[0]), cstr(a[1])
    if x is None or y is None: raise Unsupported('string comparison on non-concrete text')
    return ret(p, fr, d, r, z3.BoolVal(x == y))
def m_format_any(i, p, fr, c, a, d, r): return ret(p, fr, d, r, Str(['<formatted>']))

MODELS = dict(LIB)
MODELS.update({
    r'impl str>::trim$': m_trim, r'impl str>::trim_start$': m_trim_start, r'impl str>::starts_with::': m_starts, r'impl str>::ends_with::': m_ends,
    r'impl str>::split::<&str>$': m_split, r'impl str>::splitn::<char>$': m_splitn, r'impl str>::splitn::<\{closure@src/cpp\.rs:\d+:\d+: \d+:\d+\}>$': m_splitn_blank,
    r'(Split|SplitN)<.*> as Iterator>::next$': m_next, r'impl str>::is_empty$': m_is_empty, r'String::is_empty$': m_is_empty,
    r'Option::<&str>::(map|and_then)::': m_map, r'Vec::<State>::push$': m_push, r'Vec::<cpp::State>::push$': m_push, r'Vec::<(cpp::)?State>::pop$': m_pop,
    r'Option::<.*>::is_(none|some)$': m_isnone, r'Context::get_macro::': m_get_macro, r'Context::evaluate$': m_evaluate,
    r'Context::replace_all$': m_replace_all, r'^Option::<.*>::ok_or_else::': m_ok_or_else2,
    r'write_all$': m_event_ok('write_all'), r'as Clone>::clone$': m_opaque, r'Vec::<\(.*\)>::push$': m_event_unit('lines.push'),
    r'impl str>::as_bytes$|String::as_bytes$': m_as_bytes, r'Context::(define|undefine|define_ex)::': m_event_unit('define/undef'),
    r'as ToString>::to_string$|String::as_str$': model_string_ident,
    r'Regex::captures': m_cut('define.parse'), r'impl str>::chars$': m_cut('include.parse'),
    r'<(cpp::)?State as PartialEq>::(eq|ne)$': m_state_eq, r'^<&?str as PartialEq.*>::eq$': m_str_eq, r'^std::fmt::format$': m_format_any,
    r'<std::string::String as Deref>::deref$': model_deref_string,
})

_orig_step = Interp.step_block
def _step_block(self, p):
    fr = p.frames[-1]
    if fr.body.blocks[fr.bb][-1] == 'return;' and getattr(fr, 'post', None) and len(fr.body.blocks[fr.bb]) == 1:
        fr.env['_0'].v = fr.post(fr.env['_0'].v); fr.post = None
    if getattr(self, 'stop', None) and fr.bb in self.stop and len(p.frames) == 1:
        self.results.append(('stop', p, fr.bb)); return []
    return _orig_step(self, p)
Interp.step_block = _step_block


def anchors(mir):
    b = mir.body('process')
    loc = {n: b.debug[n][0] for n in ('state', 'stack', 'uncommented_buf', 'insert_it', 'has_lf', 'line', 'lines')}
    start = stop = None
    for bb, st in b.blocks.items():
        if st and st[-1].startswith('switchInt(') and any(re.match(r'(_\d+) = copy %s;$' % re.escape(loc['insert_it']), s) for s in st[:-1]):
            m = re.search(r'\[0: (bb\d+), otherwise: (bb\d+)\]', st[-1])
            if m: start, stop = bb, m.group(1)
    if not start: raise common.EngineError('directive dispatch block of cpp::process not found in the MIR')
    loc['context'] = '_3'
    return b, loc, start, stop


def spec_step(kind, sv, top_saved, cond):
    """textbook semantics through the representation invariant: returns (new state, stack action, emits, effect, evaluates)
    sv: 0 Active 1 Inactive 2 Skip"""
    if kind in ('if', 'ifdef', 'ifndef'):
        ns = (ACTIVE if cond else INACTIVE) if sv == ACTIVE else SKIP
        return ns, ('push', sv), False, False, (sv == ACTIVE and kind == 'if')
    if kind == 'elif':
        if sv == INACTIVE: return (ACTIVE if cond else INACTIVE), None, False, False, True
        return SKIP, None, False, False, False
    if kind == 'else':
        return (ACTIVE if sv == INACTIVE else SKIP), None, False, False, False
    if kind == 'endif':
        return top_saved, ('pop',), False, False, False
    if kind == 'text':
        return sv, None, sv == ACTIVE, False, False
    if kind in ('define', 'undef', 'error', 'include'):
        return sv, None, False, sv == ACTIVE, False
    raise ValueError(kind)


DIRECTIVES = [
    ('if', '#if E\n', 'eval[E]'), ('if', '  #if E // c\n', 'eval[E]'), ('ifdef', '#ifdef M\n', 'defined[M]'), ('ifdef', '#ifdef  M \n', 'defined[M]'),
    ('ifndef', '#ifndef M\n', '!defined[M]'), ('elif', '#elif E\n', 'eval[E]'), ('elif', '\t#elif E\n', 'eval[E]'), ('else', '#else\n', None), ('else', '#else // x\n', None),
    ('endif', '#endif\n', None), ('endif', '  #endif\n', None), ('text', 'char marker;\n', None), ('text', '   x = 1; // c\n', None),
    ('error', '#error boom\n', None), ('error', '#pragma once\n', None), ('error', '  #warning deprecated\n', None), ('define', '#define Q 1\n', None), ('undef', '#undef M\n', 'defined[M]'), ('include', '#include "f.h"\n', None),
]


def check_machine(rep, mir, st):
    b, loc, start, stop = anchors(mir)
    st['functions'].append('cpp::process (from %s to %s)' % (start, stop))
    names = ENUMS['State']
    global ACTIVE, INACTIVE, SKIP
    ACTIVE, INACTIVE, SKIP = names.index('Active'), names.index('Inactive'), names.index('Skip')
    for kind, text, condname in DIRECTIVES:
        ctx = Ctx(mir)
        it = Interp(ctx, inline=[], models=MODELS); it.stop = {stop}; it.assume_some = False
        it.allow_uninterpreted = [r'^log::', r'max_level', r'fmt::rt::Argument', r'^Arguments::', r'Rc<', r'Option<\(Rc', r'Error::', r'as Clone>::clone', r'<str as ToString>', r'to_string$', r'from_residual']
        p = Path(); fr = Frame(b, Cell(), None); fr.bb = start
        state = ctx.fresh('cpp::State', 'state'); top = ctx.fresh('cpp::State', 'stack.top'); nonempty = z3.Bool('stack.nonempty')
        vec = VecAbs(top, nonempty)
        fr.env[loc['insert_it']] = Cell(z3.BoolVal(True)); fr.env[loc['uncommented_buf']] = Cell(Str([text])); fr.env[loc['state']] = Cell(state); fr.env[loc['stack']] = Cell(vec)
        fr.env[loc['context']] = Cell(Ref(Cell(Adt('Context', None)))); fr.env[loc['line']] = Cell(z3.BitVec('line', 32)); fr.env[loc['has_lf']] = Cell(z3.BoolVal(True))
        p.frames.append(fr)
        work = [(p, 0)]
        t0 = time.time()
        try:
            while work:
                q, steps = work.pop()
                if steps > 400: it.results.append(('boundhit', q)); continue
                try: nxt = it.step_block(q)
                except Panic as e: it.results.append(('panic', q, str(e))); continue
                except CutPath as e: it.results.append(('cut', q, str(e))); continue
                work.extend((x, steps + 1) for x in nxt)
        except Unsupported as e:
            rep.inconc('directive %r: %s' % (text, e)); continue
        st['paths'] += len(it.results); st['queries'] += ctx.nq
        sol = z3.Solver(); sol.add(*ctx.constraints)
        cvar = None
        if condname: cvar = z3.Bool(condname.lstrip('!'))
        covered = set()
        for r in it.results:
            rk, q = r[0], r[1]
            if rk == 'boundhit': rep.inconc('directive %r: bound hit' % text); continue
            for sv, tv, ne, cv, everr in itertools.product(range(3), range(3), (False, True), (False, True), (False, True)):
                # representation invariant on the pre-state
                if ne and tv != ACTIVE and sv != SKIP: continue
                if not ne and sv != ACTIVE: continue
                if not ne and tv != 0: continue
                if everr and kind not in ('if', 'elif'): continue
                if kind in ('elif', 'else') and not ne: continue      # not well nested: outside the property's quantifier
                pre = [state.discr == sv, top.discr == tv, nonempty == ne]
                if cvar is not None: pre.append(cvar == cv)
                elif cv: continue
                if kind in ('if', 'elif'): pre.append(z3.Bool('evalerr[E]') == everr)
                st['queries'] += 1
                if sol.check(*(q.pc + pre)) != z3.sat: continue
                m = sol.model()
                covered.add((sv, tv, ne, cv, everr))
                st['obligations'] += 1
                cond = (not cv) if (condname or '').startswith('!') else cv
                want_state, want_stack, want_emit, want_effect, want_eval = spec_step(kind, sv, tv, cond)
                f0 = q.frames[0] if q.frames else None
                evs = [e[0] for e in q.events]
                emitted = 'write_all' in evs
                effect = any(e in evs for e in ('define/undef', 'define.parse', 'include.parse')) or (kind == 'error' and rk == 'return')
                evaluated = 'evaluate' in evs
                problems = []
                if rk in ('return', 'panic'):
                    # an early return is an error (or a panic): allowed only for #error in an active region, #endif without #if, a failing #if expression
                    legit = (kind == 'error' and sv == ACTIVE) or (kind == 'endif' and not ne) or (everr and want_eval)
                    if rk == 'panic': problems.append('panics: %s' % r[2])
                    elif not legit: problems.append('returns an error')
                else:
                    if kind == 'endif' and not ne: problems.append('#endif without #if is accepted')
                    if everr and want_eval: problems.append('a failing #if/#elif expression is ignored')
                    if rk == 'stop':
                        ns = f0.env[loc['state']].v
                        nsd = ns.discr if isinstance(ns, Adt) else ns
                        nsv = nsd if isinstance(nsd, int) else m.eval(nsd, model_completion=True).as_long()
                        if nsv != want_state: problems.append('new state %s, expected %s' % (names[nsv], names[want_state]))
                        vec2 = f0.env[loc['stack']].v
                        if want_stack and want_stack[0] == 'push':
                            pv = [x.discr if isinstance(x, Adt) else None for x in vec2.pushed]
                            pvv = [(d if isinstance(d, int) else m.eval(d, model_completion=True).as_long()) for d in pv]
                            if pvv != [sv] or vec2.popped_base: problems.append('pushes %s, expected [%s]' % ([names[x] for x in pvv], names[sv]))
                        elif want_stack and want_stack[0] == 'pop':
                            if not vec2.popped_base or vec2.pushed: problems.append('does not pop exactly one saved state')
                        elif vec2.pushed or vec2.popped_base: problems.append('touches the stack')
                    if emitted != want_emit: problems.append('text %s' % ('emitted' if emitted else 'not emitted'))
                    if kind in ('define', 'undef', 'include') and effect != want_effect and not (kind == 'undef' and want_effect and not cv): problems.append('directive %s' % ('takes effect' if effect else 'has no effect'))
                if evaluated and not want_eval: problems.append('expression evaluated although the branch cannot be selected')
                if want_eval and not evaluated and rk != 'return': problems.append('expression not evaluated')
                if not problems: st['discharged'] += 1; continue
                pre_txt = 'state=%s, enclosing saved state=%s, inside a group=%s%s' % (names[sv], names[tv], ne, (', %s=%s' % (condname, cv)) if condname else '')
                key = 'cpp.step.%s.%s.%s' % (kind, names[sv], 'T' if cond else 'F')
                st['candidates'].append((key, kind, text, sv, tv, ne, cond, everr, problems, pre_txt))
        if len(st['samples']) < 6:
            st['samples'].append(dict(directive=text, paths=len(it.results), pre_states_covered=len(covered), verdict='one-step relation equals the nesting semantics for every pre-state satisfying the invariant'))
        st['solver_s'] += time.time() - t0


def check_abstraction(rep, st):
    """the (state, saved) encoding commutes with the textbook group stack: z3 over a symbolic top group"""
    pa, taken, cur, c = z3.Bools('parent_active taken cur cond')
    A, I, Sk = z3.BitVecVal(0, 2), z3.BitVecVal(1, 2), z3.BitVecVal(2, 2)
    alpha = lambda pa_, taken_, cur_: z3.If(z3.And(pa_, cur_), A, z3.If(z3.And(pa_, z3.Not(cur_), z3.Not(taken_)), I, Sk))
    s = z3.Solver()
    wf = z3.Implies(cur, taken)          # a selected branch counts as taken
    obligations = {
        'elif': (alpha(pa, z3.Or(taken, c), z3.And(z3.Not(taken), c)), z3.If(alpha(pa, taken, cur) == I, z3.If(c, A, I), Sk)),
        'else': (alpha(pa, True, z3.Not(taken)), z3.If(alpha(pa, taken, cur) == I, A, Sk)),
        'open': (alpha(z3.And(pa, cur), c, c), z3.If(alpha(pa, taken, cur) == A, z3.If(c, A, I), Sk)),
        'emit': (z3.And(pa, cur), alpha(pa, taken, cur) == A),
    }
    for k, (lhs, rhs) in obligations.items():
        st['obligations'] += 1; st['queries'] += 1
        if s.check(wf, lhs != rhs) == z3.unsat: st['discharged'] += 1
        else: rep.inconc('representation invariant does not commute with the textbook semantics for %s (invariant too weak)' % k)


# ----------------------------------------------------------------------------- replay + end-to-end through the real preprocessor
def run_cpp(src, defs=()):
    """compile through the driver; returns (status, set of marker ids that reached the compiler, message)"""
    c = common.compile_one(src + '\nvoid main() {}\n', list(itertools.chain.from_iterable(('-D', d) for d in defs)))
    marks = set(v['name'] for v in c.vars if v['name'].startswith('mk')) if c.status == 'ok' else set()
    return c.status, marks, c.msg


def pre_context(sv, tv, ne):
    """source prefix that brings the real preprocessor into (state, saved top) ; returns (prefix, suffix)"""
    if not ne: return '', ''
    if tv == ACTIVE:
        if sv == ACTIVE: return '#if 1\n', '#endif\n'
        if sv == INACTIVE: return '#if 0\n', '#endif\n'
        return '#if 1\n#else\n', '#endif\n'
    outer = '#if 0\n' if tv == INACTIVE else '#if 1\n#else\n'
    return outer + '#if 1\n', '#endif\n#endif\n'


def replay_candidates(rep, st):
    for key, kind, text, sv, tv, ne, cond, everr, problems, pre_txt in st['candidates']:
        pre, suf = pre_context(sv, tv, ne)
        d = text.replace('E', '1' if cond else '0') if kind in ('if', 'elif') else text
        defs = ['M'] if 'M' in text and ((kind == 'ifdef' and cond) or (kind == 'ifndef' and not cond) or kind == 'undef') else []
        if everr or any('evaluated although' in x for x in problems): d = text.replace('E', 'UNDEFINED_IDENT')
        body = {'if': d + 'char mk1;\n#else\nchar mk2;\n#endif\n', 'ifdef': d + 'char mk1;\n#else\nchar mk2;\n#endif\n', 'ifndef': d + 'char mk1;\n#else\nchar mk2;\n#endif\n',
                'elif': d + 'char mk1;\n#else\nchar mk2;\n', 'else': d + 'char mk1;\n', 'endif': d + 'char mk1;\n', 'text': 'char mk1;\n',
                'define': '#define QQ 1\n' + ('#ifdef QQ\nchar mk1;\n#endif\n' if ne is not None else ''), 'undef': d + '#ifdef M\nchar mk1;\n#endif\n', 'error': d, 'include': '#include "nonexistent_file.h"\n'}[kind]
        if kind == 'endif':
            src = pre + body + ('' if ne else '')
        else:
            src = pre + body + suf
        # expected set of markers under the textbook semantics, computed by an independent tiny reference preprocessor
        want = ref_cpp(src, defs)
        got = run_cpp(src, defs)
        st['replays'] += 1
        ok = (got[0] == 'ok' and want[0] == 'ok' and got[1] == want[1]) or (got[0] == 'err' and want[0] == 'err')
        if ok:
            rep.inconc('MIR step counterexample did not reproduce through the preprocessor: %s on %r (%s)' % (problems, text, pre_txt)); continue
        rep.violation(key, 'directive %r with %s: %s; replay source gives %s, the nesting semantics gives %s' % (text.strip(), pre_txt, '; '.join(problems), got, want),
                      dict(kind='cpp', source=src + '\nvoid main() {}\n', defines=defs, expect=[want[0], sorted(want[1])], got=[got[0], sorted(got[1]), got[2]]))


def ref_cpp(src, defs):
    """textbook conditional-compilation semantics (group stack) for the directive subset used here"""
    macros = {d: '1' for d in defs}
    groups, marks = [], set()
    def active(): return all(g['cur'] for g in groups)
    def ev(e):
        e = e.split('//')[0].strip()
        neg = False
        while e.startswith('!'): neg = not neg; e = e[1:].strip()
        if '==' in e:
            l, r = [x.strip() for x in e.split('==', 1)]
            val = lambda t: macros.get(t, t)
            v = val(l) == val(r)
        else:
            t = macros.get(e, e)
            if not re.match(r'^\d+$', t): raise KeyError(e)
            v = int(t) != 0
        return v != neg
    try:
        for ln in src.split('\n'):
            s = ln.strip()
            if s.startswith('#'):
                parts = s.split('//')[0].split(None, 1)
                name, arg = parts[0], (parts[1].strip() if len(parts) > 1 else None)
                if name in ('#if', '#ifdef', '#ifndef'):
                    pa = active()
                    c = False
                    if pa: c = ev(arg) if name == '#if' else ((arg in macros) == (name == '#ifdef'))
                    groups.append(dict(pa=pa, taken=pa and c, cur=pa and c))
                elif name in ('#elif', '#else') and not groups:
                    return ('err', set())
                elif name == '#elif':
                    g = groups[-1]
                    if g['pa'] and not g['taken']:
                        c = ev(arg); g['cur'] = c; g['taken'] = c
                    else: g['cur'] = False
                elif name == '#else':
                    g = groups[-1]; g['cur'] = g['pa'] and not g['taken']; g['taken'] = True
                elif name == '#endif':
                    if not groups: return ('err', set())
                    groups.pop()
                elif active():
                    if name == '#define':
                        a = arg.split(None, 1); macros[a[0].split('(')[0]] = a[1] if len(a) > 1 else ''
                    elif name == '#undef': macros.pop(arg, None)
                    elif name in ('#error', '#include') or name not in ('#if', '#ifdef', '#ifndef', '#elif', '#else', '#endif', '#define', '#undef'): return ('err', set())     # (unknown directives are errors where they are live)
            elif active():
                for m in re.finditer(r'\bmk\w*', s): marks.add(m.group(0))
    except KeyError:
        return ('err', set())
    return ('ok', marks)


def nestings(tier):
    """end-to-end: nested groups with every truth assignment, markers in every region, definitions/errors in dead regions"""
    conds = ['0', '1', 'A', 'B', '!A', '!B', 'A == B', 'A == 1', 'ZERO', '!ZERO']
    openers = lambda c: ['#if %s' % c] + (['#ifdef %s' % c, '#ifndef %s' % c, '#ifdef UNDEF_%s' % c, '#ifndef UNDEF_%s' % c] if re.match(r'^\w+$', c) and not c.isdigit() else [])
    progs = []
    n = 0
    for c1, c2, c3 in itertools.product(conds, conds[:6], conds[:4]):
        for shape in range(7):
            n += 1
            if tier == 'quick' and n % 7: continue
            o1 = openers(c1)[n % len(openers(c1))]
            if shape == 0: src = '%s\nchar mk1;\n#elif %s\nchar mk2;\n#else\nchar mk3;\n#endif\nchar mk4;\n' % (o1, c2)
            elif shape == 1: src = '%s\nchar mk1;\n#if %s\nchar mk2;\n#else\nchar mk3;\n#endif\n#else\nchar mk4;\n#if %s\nchar mk5;\n#endif\n#endif\n' % (o1, c2, c3)
            elif shape == 2: src = '%s\n#define QX 1\nchar mk1;\n#else\n#define QY 1\nchar mk2;\n#endif\n#ifdef QX\nchar mk3;\n#endif\n#ifdef QY\nchar mk4;\n#endif\n' % o1
            elif shape == 3: src = '%s\nchar mk1;\n#elif %s\nchar mk2;\n#elif %s\nchar mk3;\n#else\nchar mk4;\n#endif\n' % (o1, c2, c3)
            elif shape == 4: src = '%s\nchar mk1;\n#else\n#error dead or alive\n#endif\n#if %s\n#undef A\n#endif\n#ifdef A\nchar mk2;\n#endif\n' % (o1, c2)
            elif shape == 6: src = '%s\nchar mk1;\n#else\n#pragma once\n#warning dead\nchar mk2;\n#endif\n#if %s\n#if %s\n#frobnicate\n#endif\nchar mk3;\n#endif\n' % (o1, c2, c3) if c2 != c3 else '%s\nchar mk1;\n#else\n#pragma once\nchar mk2;\n#endif\n' % o1
            else: src = '#if %s\n%s\nchar mk1;\n#elif %s\nchar mk2;\n#else\nchar mk3;\n#endif\n#else\n#ifdef A\nchar mk4;\n#else\nchar mk5;\n#endif\n#endif\n' % (c3, o1, c2)
            if shape == 2:
                # function-like and empty macros count as defined; a macro defined in a dead branch does not
                src += '#define FM(x) (x + 1)\n#define EMPTY\n#ifdef FM\nchar mk6;\n#endif\n#ifndef FM\nchar mk7;\n#endif\n#ifdef EMPTY\nchar mk8;\n#endif\n#undef FM\n#ifdef FM\nchar mk9;\n#endif\n'
            for defs in (['A', 'B=0', 'ZERO=0'], ['A=0', 'B=1', 'ZERO=0'], ['A=0', 'B=0', 'ZERO=0'], ['A', 'B', 'ZERO=0']):
                progs.append((src, defs))
    # string literals and comment-like text inside skipped regions
    for lit in ('"/*"', '"*/"', '"// x"', '"#endif"', '"#else"', '"a\\"b"', '"/* open'):          # (the character constant '"' is the known defect C09 L01)
        for opener, closer in (('#if 0', '#endif'), ('#ifdef UNDEF_Q', '#endif'), ('#if 1\n#else', '#endif'), ('#ifndef A', '#endif')):
            if lit == '"/* open': body = 'const char *dead = "/*";   /* open'
            else: body = 'const char *dead = %s;' % lit
            src = 'char mk1;\n%s\n%s\nchar mkdead;\n%s\nchar mk2;\n#ifdef A\nchar mk3;\n#endif\n' % (opener, body, closer)
            if 'open' in lit: src = src.replace('/* open', '/* open */')
            progs.append((src, ['A']))
    # more macros than one regex batch holds (100), #undef in every batch position, tests around the batch boundaries
    for N, und in itertools.product((99, 100, 101, 150, 205), ((), (3,), (99,), (100,), (0,), (3, 120), (98, 99, 100, 101))):
        und = [u for u in und if u < N]
        xs = sorted({x for x in (0, 1, 2, 3, 4, 50, 97, 98, 99, 100, 101, 102, 119, 120, 121, 149, 199, 200, N - 2, N - 1) if x < N})
        src = ''.join('#define M%d %d\n' % (k, k % 2) for k in range(N)) + ''.join('#undef M%d\n' % u for u in und)
        for x in xs:
            if x in und: src += '#ifdef M%d\nchar mkd%d;\n#else\nchar mku%d;\n#endif\n' % (x, x, x)
            else: src += '#if M%d\nchar mkt%d;\n#else\nchar mkf%d;\n#endif\n#ifndef M%d\nchar mkn%d;\n#endif\n' % (x, x, x, x, x)
        progs.append((src, ['A']))
        # the same with a function-like macro at the batch boundary and definitions coming from the command line
        src2 = ''.join(('#define M%d(a) (a)\n' % k) if k in (99, 100) else ('#define M%d %d\n' % (k, k % 2)) for k in range(2, N)) + ''.join('#undef M%d\n' % u for u in und if u >= 2)
        for x in xs:
            if x in (99, 100) or x in und: src2 += '#ifdef M%d\nchar mkd%d;\n#else\nchar mku%d;\n#endif\n' % (x, x, x)
            else: src2 += '#if M%d\nchar mkt%d;\n#else\nchar mkf%d;\n#endif\n' % (x, x, x)
        progs.append((src2, ['M0=0', 'M1=1']))
    return progs


def check_end_to_end(rep, tier, st):
    progs = nestings(tier)
    reqs = [('n%d' % k, list(itertools.chain.from_iterable(('-D', d) for d in defs)), src + '\nvoid main() {}\n') for k, (src, defs) in enumerate(progs)]
    R = common.compile_many(reqs)
    for k, (src, defs) in enumerate(progs):
        c = R['n%d' % k]
        want = ref_cpp(src, [d.split('=')[0] for d in defs if True] and None or [])
        # -D NAME=VALUE: the reference needs the values
        macros = {}
        for d in defs:
            nm, _, v = d.partition('='); macros[nm] = v or '1'
        want = ref_cpp('\n'.join('#define %s %s' % (a, b) for a, b in macros.items()) + '\n' + src, [])
        got = (c.status, set(v['name'] for v in c.vars if v['name'].startswith('mk')) if c.status == 'ok' else set())
        st['nestings'] += 1
        if (got[0] == 'ok' and want[0] == 'ok' and got[1] == want[1]) or (got[0] == 'err' and want[0] == 'err'):
            st['nestings_ok'] += 1; continue
        if got[0] in ('panic', 'timeout', 'crash'): continue      # C16's business
        key = 'cpp.nesting.%s' % re.sub(r'\W+', '_', src)[:80]
        rep.violation(key, 'conditional nesting with -D %s: lines reaching the compiler %s, nesting semantics %s:\n%s' % (defs, (got[0], sorted(got[1])), (want[0], sorted(want[1])), src),
                      dict(kind='cpp', source=src + '\nvoid main() {}\n', defines=defs, expect=[want[0], sorted(want[1])], got=[got[0], sorted(got[1]), c.msg]))


def run(tier):
    rep = common.Report('C07', tier, 'other')
    common.build_driver()
    st = collections.defaultdict(int); st['functions'] = []; st['samples'] = []; st['candidates'] = []
    mir = load('on')
    check_machine(rep, mir, st)
    check_abstraction(rep, st)
    replay_candidates(rep, st)
    check_end_to_end(rep, tier, st)
    rep.cov = dict(explanation='one step of the conditional-compilation state machine of cpp::process executed from the rustc MIR of the current tree (mid-function start at the directive dispatch, concrete directive text, '
                   'symbolic state / saved state / stack emptiness / macro definedness / #if value / evaluation failure); z3 enumerates every pre-state allowed by the representation invariant and the step is compared with '
                   'the textbook nesting semantics; the invariant\'s commutation with a textbook group stack is discharged by z3; counterexamples are replayed through the real preprocessor; plus end-to-end nestings '
                   '(3 levels, elif chains, definitions and #error in dead regions) compared with an independent reference preprocessor',
                   obligations=st['obligations'], discharged=st['discharged'], evaluations=st['paths'] + st['nestings'], distinct_nontrivial=st['obligations'], functions_encoded=st['functions'], paths=st['paths'],
                   queries=st['queries'], solver_s=round(st['solver_s'], 1), replays=st['replays'], nestings=st['nestings'], nestings_agreeing=st['nestings_ok'], directives=[d[1] for d in DIRECTIVES], samples=st['samples'],
                   bounds=dict(step='one directive per obligation (induction over the line sequence through the invariant)', stack='abstract: symbolic top and emptiness', conditions='uninterpreted booleans',
                               end_to_end='nesting depth <= 3, conditions over literals 0/1, macros A B ZERO with -D values, !, =='),
                   models_used=sorted(MODELS), trusted_base=['mirsym + string models on concrete directive text', 'z3', 'reference preprocessor in checks/check_c07.py'])
    rep.assumptions = ['Context::replace_all is the identity on directive lines (no macro inside a directive)', 'Context::evaluate and get_macro are uninterpreted (their values are symbolic)',
                       '#if operands outside {0, 1, macros with such values, !, ==} are outside the property\'s quantifier']
    return rep.finish()

"""setup_cmd: build everything the checks need from files on disk only (offline)."""
import sys, common

def main():
    b = common.build_driver()
    print('driver built:', b)
    try:
        import mirdump
        mirdump.prepare()
    except ImportError:
        pass
    return 0

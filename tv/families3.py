"""G-deep: program shapes chosen from a line-coverage run of the code generator under the core families (which are broad in
operators and operand kinds but shallow in shape): value contexts with the accumulator already in use (nested assignments,
shifts, ternaries, negations, comparisons and calls inside a binary operation), index registers as assignment targets of
complex values, comparisons whose left side is a register / temporary, constant conditions, `if (c) break/continue` forms,
ternaries, arrays indexed by expressions and sign-extending element reads, 16-bit shifts by 8, empty-bodied loops."""
import itertools
from cast import *
from families import V, C, A, B, mkprog, stable_pick

X, Y = V('X'), V('Y')


def keep(pid, tier, pct):
    return tier == 'thorough' or stable_pick(pid, 100, pct)


def F1():
    return Func('f', 'u8', [('u8', 'x')], Block([Return(B('+', V('x'), C(1)))]))


def nested_terms():
    """(name, factory, needs f)"""
    T = []
    def add(n, f, fn=False): T.append((n, f, fn))
    add('asg', lambda: Assign(V('vc'), '=', V('vd')))
    add('asgX', lambda: Assign(X, '=', V('vc')))
    add('asgY', lambda: Assign(Y, '=', V('vc')))
    add('asgarr', lambda: Assign(Index('arr', X), '=', V('vc')))
    add('casg', lambda: Assign(V('vc'), '+=', V('vd')))
    add('shl', lambda: B('<<', V('vc'), C(1)))
    add('shr', lambda: B('>>', V('vc'), C(2)))
    add('add', lambda: B('+', V('vc'), V('vd')))
    add('and', lambda: B('&', V('vc'), V('vd')))
    add('sub', lambda: B('-', V('vc'), C(3)))
    add('tern', lambda: Tern(V('vc'), V('vd'), C(5)))
    add('terncmp', lambda: Tern(B('<', V('vc'), V('vd')), V('vd'), V('vc')))
    add('not', lambda: Un('!', V('vc')))
    add('notcmp', lambda: Un('!', B('<', V('vc'), V('vd'))))
    add('eq', lambda: B('==', V('vc'), V('vd')))
    add('lt', lambda: B('<', V('vc'), V('vd')))
    add('land', lambda: B('&&', V('vc'), V('vd')))
    add('call', lambda: Call('f', [V('vc')]), True)
    add('callexpr', lambda: Call('f', [B('+', V('vc'), V('vd'))]), True)
    add('postinc', lambda: Inc('++', False, V('vc')))
    add('preinc', lambda: Inc('++', True, V('vc')))
    add('postincX', lambda: Inc('++', False, X))
    add('neg', lambda: Un('-', V('vc')))
    add('inv', lambda: Un('~', V('vc')))
    add('hi', lambda: B('>>', V('wb'), C(8)))
    add('aX', lambda: Index('arr', X))
    add('pY', lambda: Index('pp', Y))
    return T


def unsequenced(dn, ln, tn):
    """C leaves the order of operand evaluation open: a term that modifies X / Y next to another read or write of it is undefined"""
    if tn in ('asgX', 'postincX') and (ln == 'X' or dn == 'X'): return True
    if tn == 'asgY' and (ln == 'aY' or dn in ('Y', 'aY')): return True
    if tn == 'asgarr' and dn in ('a1', 'aY'): return True          # arr[X] may be the destination element
    return False


def g_nest(tier):
    # (16-bit destinations of composite 8-bit values are a known-broken area, covered by expr/prec: not repeated here)
    dests = [('va', lambda: V('va')), ('X', lambda: X), ('Y', lambda: Y), ('a1', lambda: Index('arr', C(1))), ('aY', lambda: Index('arr', Y)), ('sa', lambda: V('sa'))]
    lefts = [('vb', lambda: V('vb')), ('aY', lambda: Index('brr', Y)), ('k3', lambda: C(3)), ('X', lambda: X), ('avb', lambda: Index('brr', V('vb')))]
    for (dn, d), op, (ln, l), (tn, t, fn) in itertools.product(dests, ['+', '-', '&', '|'], lefts, nested_terms()):
        pid = 'deep/nest/%s=%s%s(%s)' % (dn, ln, op, tn)
        if unsequenced(dn, ln, tn) or not keep(pid, tier, 30): continue
        yield mkprog(pid, [A(d(), B(op, l(), t()))], funcs=[F1()] if fn else [])
    # complex value on the left, and on both sides
    for (dn, d), op, (tn, t, fn), (rn, r) in itertools.product(dests[:4], ['+', '-', '^'], nested_terms(), [('vb', lambda: V('vb')), ('k1', lambda: C(1)), ('sum', lambda: B('+', V('vb'), V('va')))]):
        pid = 'deep/nestL/%s=(%s)%s%s' % (dn, tn, op, rn)
        if unsequenced(dn, '', tn) or not keep(pid, tier, 25): continue
        yield mkprog(pid, [A(d(), B(op, t(), r()))], funcs=[F1()] if fn else [])
    # compound assignment whose right side is a complex value
    for (dn, d), op, (tn, t, fn) in itertools.product(dests, ['+=', '-=', '|='], nested_terms()):
        pid = 'deep/cassn/%s%s(%s)' % (dn, op, tn)
        if unsequenced(dn, '', tn) or not keep(pid, tier, 30): continue
        yield mkprog(pid, [A(d(), t(), op)], funcs=[F1()] if fn else [])
    # depth 3 on the right
    for op1, op2, op3 in itertools.product(['+', '-', '&'], repeat=3):
        pid = 'deep/nest3/%s%s%s' % (op1, op2, op3)
        yield mkprog(pid, [A(V('va'), B(op1, V('vb'), B(op2, V('vc'), B(op3, V('vd'), V('sa')))))])


def g_asg(tier):
    E = []
    def add(n, *stmts, fn=False): E.append(('deep/asg/' + n, list(stmts), fn))
    add('X=(va=vb)', A(X, Assign(V('va'), '=', V('vb'))))
    add('va=(X=vb)', A(V('va'), Assign(X, '=', V('vb'))))
    add('va=X=Y', A(V('va'), Assign(X, '=', Y)))
    add('X=va=3', A(X, Assign(V('va'), '=', C(3))))
    add('Y=va=vb', A(Y, Assign(V('va'), '=', V('vb'))))
    add('aX=va=vb', A(Index('arr', X), Assign(V('va'), '=', V('vb'))))
    add('aY=X', A(Index('arr', Y), X)); add('aX=Y', A(Index('arr', X), Y)); add('X=Y', A(X, Y)); add('Y=X', A(Y, X))
    add('X=aY+1', A(X, B('+', Index('arr', Y), C(1)))); add('Y=aX-1', A(Y, B('-', Index('arr', X), C(1))))
    add('X=X+va', A(X, B('+', X, V('va')))); add('Y=Y-va', A(Y, B('-', Y, V('va')))); add('X=Y+1', A(X, B('+', Y, C(1)))); add('Y=X&3', A(Y, B('&', X, C(3))))
    add('X=tern', A(X, Tern(V('vb'), V('vc'), V('vd')))); add('Y=tern', A(Y, Tern(B('<', V('vb'), C(4)), C(1), C(2))))
    add('Y=!va', A(Y, Un('!', V('va')))); add('X=!X', A(X, Un('!', X)))
    add('X=f(va)', A(X, Call('f', [V('va')])), fn=True); add('Y=f(X)', A(Y, Call('f', [X])), fn=True); add('va=f(Y)', A(V('va'), Call('f', [Y])), fn=True)
    add('aX=f(va)', A(Index('arr', X), Call('f', [V('va')])), fn=True); add('aY=f(aX)', A(Index('arr', Y), Call('f', [Index('arr', X)])), fn=True)
    add('wa=(va=vb)', A(V('wa'), Assign(V('va'), '=', V('vb')))); add('wa=(wb=wc)', A(V('wa'), Assign(V('wb'), '=', V('wc')))); add('va=(wa=wb)', A(V('va'), Assign(V('wa'), '=', V('wb'))))
    add('ha=(sa=sb)', A(V('ha'), Assign(V('sa'), '=', V('sb')))); add('wa=X', A(V('wa'), X)); add('ha=Y', A(V('ha'), Y)); add('X=wa', A(X, V('wa'))); add('Y=ha', A(Y, V('ha')))
    add('X=wa>>8', A(X, B('>>', V('wa'), C(8)))); add('Y=wa&255', A(Y, B('&', V('wa'), C(255))))
    add('va=X++', A(V('va'), Inc('++', False, X))); add('va=--Y', A(V('va'), Inc('--', True, Y))); add('a1=X++', A(Index('arr', C(1)), Inc('++', False, X)))
    add('X+=va', A(X, V('va'), '+=')); add('Y-=3', A(Y, C(3), '-=')); add('X&=va', A(X, V('va'), '&=')); add('Y|=aX', A(Y, Index('arr', X), '|='))
    add('X<<=1', A(X, C(1), '<<=')); add('Y>>=2', A(Y, C(2), '>>='))
    for pid, st, fn in E:
        yield mkprog(pid, st, funcs=[F1()] if fn else [])


def g_cmp(tier):
    L = [('X', lambda: X), ('Y', lambda: Y), ('sum', lambda: B('+', V('va'), V('vb'))), ('aX', lambda: Index('arr', X)), ('aY', lambda: Index('arr', Y)), ('call', lambda: Call('f', [V('va')])),
         ('shl', lambda: B('<<', V('va'), C(1))), ('hi', lambda: B('>>', V('wa'), C(8))), ('and', lambda: B('&', V('va'), C(15))), ('pY', lambda: Index('pp', Y)), ('asg', lambda: Assign(V('va'), '=', V('vb'))),
         ('postinc', lambda: Inc('++', False, V('va'))), ('preincX', lambda: Inc('++', True, X)), ('s_sum', lambda: B('+', V('sa'), V('sb')))]
    R = [('vc', lambda: V('vc')), ('k0', lambda: C(0)), ('k3', lambda: C(3)), ('k128', lambda: C(128)), ('k255', lambda: C(255)), ('aY', lambda: Index('brr', Y)), ('aX', lambda: Index('brr', X)), ('X', lambda: X), ('Y', lambda: Y),
         ('sum', lambda: B('+', V('vc'), C(1))), ('call', lambda: Call('f', [V('vc')]))]
    for (ln, l), op, (rn, r) in itertools.product(L, ['<', '<=', '>', '>=', '==', '!='], R):
        if ln == rn and ln in ('X', 'Y'): continue
        if ln == 'preincX' and rn in ('X', 'aX'): continue          # unsequenced
        pid = 'deep/cmp/%s%s%s' % (ln, op, rn)
        if not keep(pid, tier, 25): continue
        fn = 'call' in (ln, rn)
        yield mkprog(pid, [If(B(op, l(), r()), A(V('vd'), C(1)), A(V('vd'), C(2)))], funcs=[F1()] if fn else [])
    # the same as loop conditions (the loop form of the condition code is generated separately)
    for (ln, l), op in itertools.product(L[:2], ['<', '!=', '>=']):
        yield mkprog('deep/cmpfor/%s%s' % (ln, op), [A(V('vc'), B('&', V('vc'), C(3))), For(Assign(l(), '=', C(0)), B(op, l(), V('vc')) if op != '>=' else B('>=', V('vc'), l()), Inc('++', False, l()),
                                                     Block([ExprS(Inc('++', False, V('vd'))), If(B('==', V('vd'), C(9)), Break())]))])


def g_kcond(tier):
    one = lambda: A(V('vc'), C(1)); two = lambda: A(V('vc'), C(2))
    K = [('1', lambda: C(1)), ('0', lambda: C(0)), ('7', lambda: C(7)), ('3<4', lambda: B('<', C(3), C(4))), ('4<3', lambda: B('<', C(4), C(3))), ('3==3', lambda: B('==', C(3), C(3))), ('3!=3', lambda: B('!=', C(3), C(3))),
         ('4>=4', lambda: B('>=', C(4), C(4))), ('5<=4', lambda: B('<=', C(5), C(4))), ('9>2', lambda: B('>', C(9), C(2))), ('!0', lambda: Un('!', C(0))), ('!1', lambda: Un('!', C(1))),
         ('1&&va', lambda: B('&&', C(1), V('va'))), ('0&&va', lambda: B('&&', C(0), V('va'))), ('1||va', lambda: B('||', C(1), V('va'))), ('0||va', lambda: B('||', C(0), V('va'))),
         ('va&&0', lambda: B('&&', V('va'), C(0))), ('va&&1', lambda: B('&&', V('va'), C(1))), ('va||1', lambda: B('||', V('va'), C(1))), ('va||0', lambda: B('||', V('va'), C(0))),
         ('1&&va<vb', lambda: B('&&', C(1), B('<', V('va'), V('vb')))), ('0||va==vb', lambda: B('||', C(0), B('==', V('va'), V('vb')))), ('va++&&0', lambda: B('&&', Inc('++', False, V('va')), C(0))),
         ('0&&va++', lambda: B('&&', C(0), Inc('++', False, V('va')))), ('1||va++', lambda: B('||', C(1), Inc('++', False, V('va')))), ('ku', lambda: V('ku')), ('ku<201', lambda: B('<', V('ku'), C(201))),
         ('ks<0', lambda: B('<', V('ks'), C(0))), ('1==1&&2==2', lambda: B('&&', B('==', C(1), C(1)), B('==', C(2), C(2)))), ('1==2||2==2', lambda: B('||', B('==', C(1), C(2)), B('==', C(2), C(2))))]
    for n, k in K:
        yield mkprog('deep/kcond/if/' + n, [If(k(), one(), two())])
        yield mkprog('deep/kcond/ifnoelse/' + n, [If(k(), one()), ExprS(Inc('++', False, V('vd')))])
        yield mkprog('deep/kcond/tern/' + n, [A(V('vc'), Tern(k(), V('vb'), V('vd')))])
        yield mkprog('deep/kcond/set/' + n, [A(V('vc'), k())])
        yield mkprog('deep/kcond/not/' + n, [If(Un('!', k()), one(), two())])
        yield mkprog('deep/kcond/while/' + n, [A(V('vd'), C(0)), While(k(), Block([ExprS(Inc('++', False, V('vd'))), If(B('==', V('vd'), C(3)), Break())]))])
        yield mkprog('deep/kcond/do/' + n, [A(V('vd'), C(0)), DoWhile(Block([ExprS(Inc('++', False, V('vd'))), If(B('==', V('vd'), C(3)), Break())]), k())])
        yield mkprog('deep/kcond/for/' + n, [For(Assign(V('vd'), '=', C(0)), k(), Inc('++', False, V('vd')), If(B('==', V('vd'), C(3)), Break()))])


def g_brk(tier):
    conds = [('eq', lambda: B('==', V('va'), V('vb'))), ('lt3', lambda: B('<', V('va'), C(3))), ('X', lambda: X), ('not', lambda: Un('!', V('va'))), ('land', lambda: B('&&', V('va'), V('vb'))),
             ('lor', lambda: B('||', V('va'), V('vb'))), ('w256', lambda: B('==', V('wa'), C(256))), ('bit', lambda: B('&', V('va'), C(1))), ('ge', lambda: B('>=', V('vc'), V('va'))),
             ('preinc', lambda: Inc('++', True, V('vb'))), ('aX', lambda: Index('arr', X))]
    inc = lambda n: ExprS(Inc('++', False, V(n)))
    dec = lambda n: ExprS(Inc('--', False, V(n)))
    for (cn, c), kind in itertools.product(conds, ['break', 'continue']):
        J = (lambda: Break()) if kind == 'break' else (lambda: Continue())
        init = [A(V('vd'), C(3))]
        yield mkprog('deep/%s/while/%s' % (kind, cn), init + [While(V('vd'), Block([dec('vd'), If(c(), J()), inc('vc')]))])
        yield mkprog('deep/%s/whileblk/%s' % (kind, cn), init + [While(V('vd'), Block([dec('vd'), If(c(), Block([inc('sb'), J()])), inc('vc')]))])
        yield mkprog('deep/%s/whileelse/%s' % (kind, cn), init + [While(V('vd'), Block([dec('vd'), If(c(), J(), inc('sb')), inc('vc')]))])
        yield mkprog('deep/%s/for/%s' % (kind, cn), [For(Assign(V('vd'), '=', C(0)), B('<', V('vd'), C(3)), Inc('++', False, V('vd')), Block([If(c(), J()), inc('vc')]))])
        yield mkprog('deep/%s/forY/%s' % (kind, cn), [For(Assign(Y, '=', C(3)), Y, Inc('--', False, Y), Block([If(c(), J()), inc('vc')]))])
        yield mkprog('deep/%s/do/%s' % (kind, cn), init + [DoWhile(Block([If(c(), J()), inc('vc')]), Inc('--', True, V('vd')))])
        yield mkprog('deep/%s/first/%s' % (kind, cn), init + [While(V('vd'), Block([If(c(), J()) if kind == 'break' else dec('vd'), dec('vd') if kind == 'break' else If(c(), J()), inc('vc')]))])
        yield mkprog('deep/%s/inner/%s' % (kind, cn), [For(Assign(V('sc'), '=', C(0)), B('<', V('sc'), C(2)), Inc('++', False, V('sc')),
                                                        Block(init + [While(V('vd'), Block([dec('vd'), If(c(), J()), inc('vc')])), inc('wc')]))])
        yield mkprog('deep/%s/switch/%s' % (kind, cn), init + [While(V('vd'), Block([dec('vd'), Switch(V('vd'), [(1, [If(c(), J()), inc('vc'), Break()]), (None, [inc('wc')])]), inc('sb')]))])


def g_tern(tier):
    T = []
    def add(n, *st, fn=False): T.append(('deep/tern/' + n, list(st), fn))
    add('plain', A(V('va'), Tern(V('vb'), V('vc'), V('vd'))))
    add('consts', A(V('va'), Tern(V('vb'), C(1), C(2))))
    add('nestedT', A(V('va'), Tern(V('vb'), Tern(V('vc'), C(1), C(2)), C(3))))
    add('nestedF', A(V('va'), Tern(V('vb'), C(3), Tern(V('vc'), C(1), C(2)))))
    add('w', A(V('wa'), Tern(V('vb'), V('wb'), V('wc'))))
    add('wk', A(V('wa'), Tern(V('vb'), C(1000), C(2))))
    add('mixed', A(V('wa'), Tern(V('vb'), V('wb'), V('vc'))))
    add('signed', A(V('ha'), Tern(V('vb'), V('sa'), V('sb'))))
    add('incond', If(Tern(V('vb'), V('vc'), V('vd')), A(V('va'), C(1)), A(V('va'), C(2))))
    add('incmp', If(B('<', Tern(V('vb'), V('vc'), V('vd')), C(4)), A(V('va'), C(1)), A(V('va'), C(2))))
    add('arg', A(V('va'), Call('f', [Tern(V('vb'), V('vc'), V('vd'))])), fn=True)
    add('index', A(V('va'), Index('arr', Tern(V('vb'), C(1), C(2)))))
    add('dest_X', A(X, Tern(V('vb'), V('vc'), C(0))))
    add('side', A(V('va'), Tern(V('vb'), Inc('++', False, V('vc')), Inc('--', False, V('vd')))))
    add('sum', A(V('va'), B('+', Tern(V('vb'), V('vc'), V('vd')), Tern(V('vc'), C(1), C(2)))))
    add('logic', A(V('va'), Tern(B('&&', V('vb'), V('vc')), V('vd'), C(7))))
    add('cmp16', A(V('va'), Tern(B('<', V('wa'), V('wb')), C(1), C(2))))
    add('exprs', A(V('va'), Tern(V('vb'), B('+', V('vc'), C(1)), B('-', V('vd'), C(1)))))
    add('arr', A(V('va'), Tern(V('vb'), Index('arr', X), Index('brr', Y))))
    add('stmt', ExprS(Tern(V('vb'), Assign(V('vc'), '=', C(1)), Assign(V('vd'), '=', C(2)))))
    add('ret', A(V('va'), Call('g', [V('vb')])))
    for pid, st, fn in T:
        funcs = [F1()] if fn else []
        if pid.endswith('/ret'): funcs = [Func('g', 'u8', [('u8', 'x')], Block([Return(Tern(V('x'), C(4), V('vc')))]))]
        yield mkprog(pid, st, funcs=funcs, extra_globals=['vc'] if pid.endswith('/ret') else ())


def g_idx(tier):
    m3 = lambda e: B('&', e, C(3))
    I = [('vb', lambda: V('vb')), ('vb&3', lambda: m3(V('vb'))), ('X+1', lambda: B('+', X, C(1))), ('Y-1', lambda: B('-', Y, C(1))), ('aX&3', lambda: m3(Index('arr', X))), ('vb+vc', lambda: B('+', V('vb'), V('vc'))),
         ('sa', lambda: V('sa')), ('wb', lambda: V('wb')), ('k2', lambda: C(2)), ('vb>>6', lambda: B('>>', V('vb'), C(6)))]
    for (n, ix), an in itertools.product(I, ['arr', 'sarr', 'warr', 'pp']):
        if an == 'pp' and n in ('sa', 'wb'): continue        # a pointer index is an unsigned byte for this compiler
        el = lambda: Index(an, ix())
        wide = an == 'warr'
        yield mkprog('deep/idx/ld/%s[%s]' % (an, n), [A(V('wa' if wide else 'va'), el())])
        yield mkprog('deep/idx/ld16/%s[%s]' % (an, n), [A(V('ha'), el())])
        yield mkprog('deep/idx/st/%s[%s]' % (an, n), [A(el(), V('wa' if wide else 'va'))])
        if keep('deep/idx/x/%s[%s]' % (an, n), tier, 50):
            yield mkprog('deep/idx/add/%s[%s]' % (an, n), [A(V('va'), B('+', V('vd'), el()))])
            yield mkprog('deep/idx/cass/%s[%s]' % (an, n), [A(el(), V('vd'), '+=')])
            yield mkprog('deep/idx/inc/%s[%s]' % (an, n), [ExprS(Inc('++', False, el()))])
            yield mkprog('deep/idx/cmp/%s[%s]' % (an, n), [If(B('<', el(), V('vd')), A(V('vc'), C(1)), A(V('vc'), C(2)))])
            yield mkprog('deep/idx/keepY/%s[%s]' % (an, n), [A(Y, C(1)), A(V('va'), el()), A(V('vc'), Index('brr', Y))])
            yield mkprog('deep/idx/copy/%s[%s]' % (an, n), [A(Index('brr', X), el())])
    # sign / zero extension of elements and scalars into 16-bit destinations
    for (sn, s), (dn, d) in itertools.product([('sarrX', lambda: Index('sarr', X)), ('sarrY', lambda: Index('sarr', Y)), ('sarr1', lambda: Index('sarr', C(1))), ('arrX', lambda: Index('arr', X)), ('sa', lambda: V('sa')),
                                               ('pY', lambda: Index('pp', Y)), ('negva', lambda: Un('-', V('va'))), ('negsa', lambda: Un('-', V('sa'))), ('X', lambda: X)],
                                              [('wa', lambda: V('wa')), ('ha', lambda: V('ha')), ('w1', lambda: Index('warr', C(1))), ('wX', lambda: Index('warr', X))]):
        yield mkprog('deep/ext/%s=%s' % (dn, sn), [A(d(), s())])
        yield mkprog('deep/ext/%s=%s+wb' % (dn, sn), [A(d(), B('+', s(), V('wb')))])
        yield mkprog('deep/ext/%s+=%s' % (dn, sn), [A(d(), s(), '+=')])


def g_sh16(tier):
    S = []
    def add(n, *st): S.append(('deep/sh16/' + n, list(st)))
    for dn, d in (('va', lambda: V('va')), ('wa', lambda: V('wa')), ('X', lambda: X), ('ha', lambda: V('ha')), ('a1', lambda: Index('arr', C(1)))):
        for sn, s in (('wb', lambda: V('wb')), ('w1', lambda: Index('warr', C(1))), ('wX', lambda: Index('warr', X))):      # (>> on negative signed values is implementation-defined: no hb)
            add('%s=%s>>8' % (dn, sn), A(d(), B('>>', s(), C(8))))
            add('%s=%s<<8' % (dn, sn), A(d(), B('<<', s(), C(8))))
            add('%s=vb+(%s>>8)' % (dn, sn), A(d(), B('+', V('vb'), B('>>', s(), C(8)))))
            add('%s=(%s>>8)&15' % (dn, sn), A(d(), B('&', B('>>', s(), C(8)), C(15))))
            add('%s=(%s>>8)+wc' % (dn, sn), A(d(), B('+', B('>>', s(), C(8)), V('wc'))))
            add('%s=%s<<1' % (dn, sn), A(d(), B('<<', s(), C(1))))
            add('%s=%s>>1' % (dn, sn), A(d(), B('>>', s(), C(1))))
        add('%s=vb<<8' % dn, A(d(), B('<<', V('vb'), C(8))))
        add('%s=(vb<<8)|vc' % dn, A(d(), B('|', B('<<', V('vb'), C(8)), V('vc'))))
        add('%s=wb&255' % dn, A(d(), B('&', V('wb'), C(255))))
        add('%s=wb&0xff00' % dn, A(d(), B('&', V('wb'), C(0xff00))))
    add('wa>>=8', A(V('wa'), C(8), '>>=')); add('wa<<=8', A(V('wa'), C(8), '<<=')); 
    add('ha>>=8_dropped', A(V('vc'), C(0))) if False else None; add('if_hi', If(B('==', B('>>', V('wa'), C(8)), C(1)), A(V('vc'), C(1)), A(V('vc'), C(2))))
    add('if_hi_lt', If(B('<', B('>>', V('wa'), C(8)), V('vb')), A(V('vc'), C(1)), A(V('vc'), C(2))))
    for pid, st in S:
        yield mkprog(pid, st)


def g_loops(tier):
    m3 = lambda n: A(V(n), B('&', V(n), C(3)))
    yield mkprog('deep/empty/while_postdec', [m3('va'), While(Inc('--', False, V('va')), Block([]))])
    yield mkprog('deep/empty/while_predec_X', [A(X, C(3)), While(Inc('--', True, X), Block([]))])
    yield mkprog('deep/empty/while_ne_Y', [A(Y, B('&', Y, C(3))), While(B('!=', Inc('++', True, Y), C(4)), Block([]))])
    yield mkprog('deep/empty/while_arr', [A(X, C(0)), A(Index('arr', C(3)), C(0)), While(B('&&', Index('arr', X), B('<', Inc('++', False, X), C(3))), Block([]))])
    yield mkprog('deep/empty/for', [For(Assign(V('va'), '=', C(0)), B('<', V('va'), C(3)), Inc('++', False, V('va')), Block([]))])
    yield mkprog('deep/empty/for_two', [For(Comma(Assign(V('va'), '=', C(0)), Assign(V('vb'), '=', C(9))), B('<', V('va'), C(3)), Comma(Inc('++', False, V('va')), Inc('--', False, V('vb'))), Block([]))])
    yield mkprog('deep/empty/do', [m3('va'), DoWhile(Block([]), Inc('--', False, V('va')))])
    yield mkprog('deep/empty/if', [If(V('va'), Block([])), A(V('vb'), C(1))])
    yield mkprog('deep/empty/ifelse', [If(V('va'), Block([]), A(V('vb'), C(1)))])
    yield mkprog('deep/loops/while_lt_16', [A(V('wa'), C(250)), While(B('<', V('wa'), C(260)), Block([A(V('wa'), C(3), '+='), ExprS(Inc('++', False, V('vb')))]))])
    yield mkprog('deep/loops/countdown_s', [A(V('sa'), C(2)), While(B('>=', V('sa'), C(0)), Block([ExprS(Inc('--', False, V('sa'))), ExprS(Inc('++', False, V('vb')))]))])
    yield mkprog('deep/loops/for_X_arr', [For(Assign(X, '=', C(3)), B('!=', X, C(255)), Inc('--', False, X), A(Index('arr', X), Index('brr', X)))])
    yield mkprog('deep/loops/for_ge0_signed', [For(Assign(V('sa'), '=', C(3)), B('>=', V('sa'), C(0)), Inc('--', False, V('sa')), ExprS(Inc('++', False, V('vb'))))])
    yield mkprog('deep/loops/do_while_X', [A(X, C(4)), DoWhile(Block([A(Index('brr', C(0)), X, '+=')]), Inc('--', True, X))])
    yield mkprog('deep/loops/nested3', [For(Assign(V('va'), '=', C(0)), B('<', V('va'), C(2)), Inc('++', False, V('va')), For(Assign(X, '=', C(0)), B('<', X, C(2)), Inc('++', False, X),
                                            For(Assign(Y, '=', C(0)), B('<', Y, C(2)), Inc('++', False, Y), ExprS(Inc('++', False, V('vb'))))))])
    yield mkprog('deep/loops/while_in_if', [m3('va'), If(V('vb'), While(V('va'), ExprS(Inc('--', False, V('va')))), A(V('vc'), C(1)))])
    yield mkprog('deep/loops/goto_out', [m3('va'), While(C(1), Block([If(B('==', V('va'), C(0)), Goto('out')), ExprS(Inc('--', False, V('va'))), ExprS(Inc('++', False, V('vb')))])), Label('out', A(V('vc'), C(1)))])
    yield mkprog('deep/loops/return_in_loop', [m3('va'), While(C(1), Block([If(B('==', V('va'), C(0)), Return()), ExprS(Inc('--', False, V('va'))), ExprS(Inc('++', False, V('vb')))]))])


def ctx_rewrites(tier):
    """(pid, stmts_a, stmts_b, assume): a comparison and its mirrored form (a < b / b > a) placed where the code generator's and the
    optimiser's cached knowledge about flags and registers is consulted right afterwards: an else-branch / second operand that
    tests one of the compared values against zero, and nested tests of an indexed element with the index register reloaded in
    between (register holding k / constant k)"""
    import families2
    MIR = {'<': '>', '>': '<', '<=': '>=', '>=': '<=', '==': '==', '!=': '!='}
    one, two, three = (lambda: A(V('vc'), C(1))), (lambda: A(V('vc'), C(2))), (lambda: A(V('vc'), C(3)))
    for (n, l, r), op in itertools.product(families2.cond_pairs(), families2.CMPS):
        if any(w in n for w in ('wa', 'ha', 'wX', 'wb', 'hb', 'sa')) or '+' in n or '&' in n or n.endswith(('~0', '~255')): continue      # (signed comparisons: known-broken area, see K08/R04)
        zs = []
        for e in (l(), r()):
            for x in e.walk():
                if isinstance(x, Var) and x.name not in zs and not (isinstance(e, Index) and x.name in ('X', 'Y')): zs.append(x.name)
        for z in zs:
            for cn, zt in (('z', lambda: B('==', V(z), C(0))), ('nz', lambda: V(z))):
                base = 'ctx/%s/%s/%s%s' % (n, op, z, cn)
                if not keep(base, tier, 35): continue
                for form, c1, c2 in (('a', lambda: B(op, l(), r()), lambda: B(MIR[op], r(), l())),):
                    yield base + '/elif', [If(c1(), one(), If(zt(), two(), three()))], [If(c2(), one(), If(zt(), two(), three()))], None
                    yield base + '/or', [If(B('||', c1(), zt()), one(), two())], [If(B('||', c2(), zt()), one(), two())], None
                    yield base + '/and', [If(B('&&', c1(), zt()), one(), two())], [If(B('&&', c2(), zt()), one(), two())], None
                    yield base + '/then', [If(c1(), If(zt(), one(), two()), three())], [If(c2(), If(zt(), one(), two()), three())], None
                    yield base + '/seq', [If(c1(), one()), If(zt(), A(V('vd'), C(1)), A(V('vd'), C(2)))], [If(c2(), one()), If(zt(), A(V('vd'), C(1)), A(V('vd'), C(2)))], None
                    yield base + '/while', [A(V('vd'), C(2)), While(B('&&', c1(), V('vd')), Block([ExprS(Inc('--', False, V('vd'))), If(zt(), one(), two())]))], \
                                           [A(V('vd'), C(2)), While(B('&&', c2(), V('vd')), Block([ExprS(Inc('--', False, V('vd'))), If(zt(), one(), two())]))], None
    for reg, k in itertools.product(('X', 'Y'), (0, 2)):
        R = lambda: V(reg)
        for an in ('arr', 'pp') if reg == 'Y' else ('arr',):
            for rn, rl in (('vb', lambda: V('vb')), ('k1', lambda: C(1)), ('a1', lambda: Index('brr', C(1))), ('inc', None), ('other', lambda: V('Y' if reg == 'X' else 'X'))):
                for tn, test in (('eq1', lambda i: B('==', Index(an, i), C(1))), ('ltva', lambda i: B('<', Index(an, i), V('va'))), ('truth', lambda i: Index(an, i))):
                    reload = (lambda: ExprS(Inc('++', False, R()))) if rl is None else (lambda: A(R(), rl()))
                    mk = lambda i: [If(test(i), Block([reload(), If(test(R()), A(V('vc'), C(1)), A(V('vc'), C(2)))]), A(V('vc'), C(3)))]
                    yield 'ctx/regidx/%s/%s=%d/%s/%s' % (an, reg, k, rn, tn), mk(R()), mk(C(k)), {reg: k}
                    mk2 = lambda i: [If(B('&&', test(i), Comma(Assign(R(), '=', rl()) if rl else Inc('++', True, R()), test(R()))), A(V('vc'), C(1)), A(V('vc'), C(2)))]
                    yield 'ctx/regidx-and/%s/%s=%d/%s/%s' % (an, reg, k, rn, tn), mk2(R()), mk2(C(k)), {reg: k}


def g_ctx(tier):
    for pid, a, b, assume in ctx_rewrites(tier):
        pre = [A(V(r), C(k)) for r, k in (assume or {}).items()]
        yield mkprog('deep/' + pid + '/a', pre + a)
        if not assume: yield mkprog('deep/' + pid + '/b', b)


def g_bare(tier):
    """statement forms without braces: `if (c) break;` / `if (c) continue;` have their own code path (a single conditional branch to the
    loop label), `while (c) ;` is generated as a do-while; grouped case labels"""
    conds = [('eq', lambda: B('==', V('va'), V('vb'))), ('lt3', lambda: B('<', V('va'), C(3))), ('X', lambda: X), ('not', lambda: Un('!', V('va'))), ('land', lambda: B('&&', V('va'), V('vb'))),
             ('lor', lambda: B('||', V('va'), V('vb'))), ('w256', lambda: B('==', V('wa'), C(256))), ('bit', lambda: B('&', V('va'), C(1))), ('ge', lambda: B('>=', V('vc'), V('va'))), ('le', lambda: B('<=', V('vc'), V('va'))),
             ('preinc', lambda: Inc('++', True, V('vb'))), ('aX', lambda: Index('arr', X)), ('wlt', lambda: B('<', V('wa'), V('wb'))), ('k1', lambda: C(1)), ('k0', lambda: C(0)), ('call', lambda: Call('f', [V('va')]))]
    inc = lambda n: ExprS(Inc('++', False, V(n)))
    dec = lambda n: ExprS(Inc('--', False, V(n)))
    for (cn, c), kind in itertools.product(conds, ['break', 'continue']):
        J = (lambda: Break()) if kind == 'break' else (lambda: Continue())
        init = [A(V('vd'), C(3))]
        fn = [F1()] if cn == 'call' else []
        mk = lambda pid, st: mkprog('deep/bare/%s/%s/%s' % (kind, pid, cn), st, funcs=fn)
        yield mk('while', init + [While(V('vd'), Block([dec('vd'), If(c(), J(), bare=True), inc('vc')]))])
        yield mk('while-first', init + [While(V('vd'), Block([If(c(), J(), bare=True), dec('vd'), inc('vc')]))] if kind == 'break' else init + [While(V('vd'), Block([dec('vd'), inc('sb'), If(c(), J(), bare=True)]))])
        yield mk('for', [For(Assign(V('vd'), '=', C(0)), B('<', V('vd'), C(3)), Inc('++', False, V('vd')), Block([If(c(), J(), bare=True), inc('vc')]))])
        yield mk('for-bare', [For(Assign(V('vd'), '=', C(0)), B('<', V('vd'), C(3)), Inc('++', False, V('vd')), If(c(), J(), bare=True), bare=True), inc('vc')])
        yield mk('forY', [For(Assign(Y, '=', C(3)), Y, Inc('--', False, Y), Block([If(c(), J(), bare=True), inc('vc')]))])
        yield mk('do', init + [DoWhile(Block([If(c(), J(), bare=True), inc('vc')]), Inc('--', True, V('vd')))])
        yield mk('do-two', init + [DoWhile(Block([If(c(), J(), bare=True), inc('vc'), If(B('==', V('vc'), C(7)), J(), bare=True), inc('sb')]), Inc('--', True, V('vd')))])
        yield mk('inner', [For(Assign(V('sc'), '=', C(0)), B('<', V('sc'), C(2)), Inc('++', False, V('sc')), Block(init + [While(V('vd'), Block([dec('vd'), If(c(), J(), bare=True), inc('vc')])), inc('wc')]))])
        yield mk('outer', init + [While(V('vd'), Block([dec('vd'), For(Assign(X, '=', C(0)), B('<', X, C(2)), Inc('++', False, X), inc('wc'), bare=True), If(c(), J(), bare=True), inc('vc')]))])
        yield mk('switch', init + [While(V('vd'), Block([dec('vd'), Switch(V('vd'), [(1, [If(c(), J(), bare=True), inc('vc'), Break()]), (None, [inc('wc')])]), inc('sb')]))])
    one, two = (lambda: A(V('vc'), C(1))), (lambda: A(V('vc'), C(2)))
    m3 = lambda n: A(V(n), B('&', V(n), C(3)))
    yield mkprog('deep/bare/if', [If(V('va'), one(), bare=True), inc('vd')])
    yield mkprog('deep/bare/ifelse', [If(V('va'), one(), two(), bare=True), inc('vd')])
    yield mkprog('deep/bare/ifelseif', [If(V('va'), one(), If(V('vb'), two(), A(V('vc'), C(3)), bare=True), bare=True), inc('vd')])
    yield mkprog('deep/bare/dangling', [If(V('va'), If(V('vb'), one(), two(), bare=True), bare=True), inc('vd')])
    yield mkprog('deep/bare/while', [m3('va'), While(V('va'), dec('va'), bare=True), inc('vd')])
    yield mkprog('deep/bare/for', [For(Assign(V('va'), '=', C(0)), B('<', V('va'), C(3)), Inc('++', False, V('va')), A(V('vb'), V('va'), '+='), bare=True), inc('vd')])
    yield mkprog('deep/bare/do', [m3('va'), DoWhile(inc('vb'), Inc('--', False, V('va')) if False else B('!=', Inc('--', True, V('vd')), C(0)), bare=True)]) if False else mkprog('deep/bare/do', [A(V('vd'), C(3)), DoWhile(inc('vb'), Inc('--', True, V('vd')), bare=True), inc('vc')])
    yield mkprog('deep/bare/nested-loops', [For(Assign(X, '=', C(0)), B('<', X, C(2)), Inc('++', False, X), For(Assign(Y, '=', C(0)), B('<', Y, C(2)), Inc('++', False, Y), inc('vb'), bare=True), bare=True), inc('vc')])
    yield mkprog('deep/bare/empty-while-predec', [A(X, C(3)), While(Inc('--', True, X), Empty(), bare=True), inc('vc')])
    yield mkprog('deep/bare/empty-while-ne', [A(Y, B('&', Y, C(3))), While(B('!=', Inc('++', True, Y), C(4)), Empty(), bare=True), inc('vc')])
    yield mkprog('deep/bare/empty-for', [For(Assign(X, '=', C(0)), B('!=', X, C(4)), Inc('++', False, X), Empty(), bare=True), inc('vc')])
    yield mkprog('deep/bare/empty-for-arr', [For(Assign(X, '=', C(0)), B('&&', B('<', X, C(3)), Index('arr', X)), Inc('++', False, X), Empty(), bare=True), A(V('vc'), X)])
    yield mkprog('deep/bare/empty-if', [If(V('va'), Empty(), two(), bare=True), inc('vd')])
    yield mkprog('deep/bare/empty-else', [If(V('va'), one(), Empty(), bare=True), inc('vd')])
    yield mkprog('deep/bare/empty-do', [A(V('vd'), C(3)), DoWhile(Empty(), Inc('--', True, V('vd')), bare=True), inc('vc')])
    for sn, sel in (('va', lambda: V('va')), ('X', lambda: X), ('aY', lambda: Index('arr', Y)), ('va&7', lambda: B('&', V('va'), C(7))), ('wa', lambda: V('wa')), ('sa', lambda: V('sa'))):
        yield mkprog('deep/switch/group/' + sn, [Switch(sel(), [(1, []), (2, [A(V('vb'), C(1)), Break()]), (3, []), (4, []), (5, [A(V('vb'), C(2)), Break()]), (None, [A(V('vb'), C(3))])]), inc('vc')])
        yield mkprog('deep/switch/group-fall/' + sn, [Switch(sel(), [(0, [inc('vb')]), (1, []), (2, [inc('vb')]), (7, []), (200, [inc('vb'), Break()]), (None, [A(V('vb'), C(9))])]), inc('vc')])
        yield mkprog('deep/switch/group-last/' + sn, [Switch(sel(), [(1, [A(V('vb'), C(1)), Break()]), (2, []), (3, [A(V('vb'), C(2))])]), inc('vc')])
        yield mkprog('deep/switch/group-default/' + sn, [Switch(sel(), [(1, []), (None, [A(V('vb'), C(1)), Break()]), (2, [A(V('vb'), C(2))])]), inc('vc')])
        yield mkprog('deep/switch/default-first/' + sn, [Switch(sel(), [(None, [A(V('vb'), C(1)), Break()]), (2, [A(V('vb'), C(2)), Break()]), (3, [A(V('vb'), C(3))])]), inc('vc')])
        yield mkprog('deep/switch/nested/' + sn, [Switch(sel(), [(1, [Switch(V('vd'), [(1, [A(V('vb'), C(11)), Break()]), (None, [A(V('vb'), C(12))])]), Break()]), (2, [A(V('vb'), C(2))]), (None, [A(V('vb'), C(3))])]), inc('vc')])
        yield mkprog('deep/switch/in-for-continue/' + sn, [For(Assign(V('vd'), '=', C(0)), B('<', V('vd'), C(3)), Inc('++', False, V('vd')), Block([Switch(sel(), [(1, [Continue()]), (2, [inc('vb'), Break()]), (None, [inc('sb')])]), inc('vc')]))])


def g_nasg(tier):
    """an assignment used as a value inside a binary operation, for every (destination, source) kind"""
    D = [('X', lambda: X), ('Y', lambda: Y), ('aX', lambda: Index('arr', X)), ('aY', lambda: Index('arr', Y)), ('pY', lambda: Index('pp', Y)), ('vc', lambda: V('vc')), ('a1', lambda: Index('arr', C(1))), ('wc', lambda: V('wc'))]
    S = [('X', lambda: X), ('Y', lambda: Y), ('bX', lambda: Index('brr', X)), ('bY', lambda: Index('brr', Y)), ('pY', lambda: Index('pq', Y)), ('vd', lambda: V('vd')), ('k3', lambda: C(3)), ('sum', lambda: B('+', V('vd'), C(1)))]
    for (dn, d), (sn, s), op in itertools.product(D, S, ['+', '-']):
        if dn == sn: continue
        for on, outer in (('va', lambda: V('va')), ('sa', lambda: V('sa'))):
            pid = 'deep/nasg/%s=vb%s(%s=%s)' % (on, op, dn, sn)
            if not keep(pid, tier, 50): continue
            yield mkprog(pid, [A(outer(), B(op, V('vb'), Assign(d(), '=', s())))])
        if keep('deep/nasg/cond/%s=%s' % (dn, sn), tier, 40) and op == '+':
            yield mkprog('deep/nasg/cond/%s=%s' % (dn, sn), [If(B('<', Assign(d(), '=', s()), V('vb')), A(V('va'), C(1)), A(V('va'), C(2)))])
            yield mkprog('deep/nasg/truth/%s=%s' % (dn, sn), [If(Assign(d(), '=', s()), A(V('va'), C(1)), A(V('va'), C(2)))])
            yield mkprog('deep/nasg/arg/%s=%s' % (dn, sn), [A(V('va'), Call('f', [Assign(d(), '=', s())]))], funcs=[F1()])
            yield mkprog('deep/nasg/chain/%s=%s' % (dn, sn), [A(V('va'), Assign(V('sb'), '=', Assign(d(), '=', s())))])


def g_regconst(tier):
    """a register loaded with a constant and then compared with a constant: the optimiser decides the branch itself"""
    for rn, k, k2, op in itertools.product(('X', 'Y', 'va', 'sa'), (0, 3, 5, 255), (0, 3, 4, 255), ('==', '!=', '<', '>=', '<=', '>')):
        if rn == 'sa' and 255 in (k, k2): continue
        R = lambda: V(rn)
        one, two = (lambda: A(V('vc'), C(1))), (lambda: A(V('vc'), C(2)))
        base = 'deep/regconst/%s=%d/%s%d' % (rn, k, op, k2)
        yield mkprog(base + '/if', [A(R(), C(k)), If(B(op, R(), C(k2)), one(), two())])
        if not keep(base, tier, 50): continue
        yield mkprog(base + '/ifnoelse-reload', [A(R(), C(k)), If(B(op, R(), C(k2)), A(R(), V('vb'))), A(V('vd'), R())])
        yield mkprog(base + '/gap', [A(R(), C(k)), A(V('va'), C(7)), If(B(op, R(), C(k2)), one(), two())])
        yield mkprog(base + '/other-reload', [A(R(), C(k)), If(B(op, R(), C(k2)), A(V('Y' if rn == 'X' else 'X'), V('vb'))), A(V('vd'), R())])
        yield mkprog(base + '/for', [A(V('vc'), C(0)), For(Assign(R(), '=', C(k)), B(op, R(), C(k2)), Inc('++', False, R()), Block([ExprS(Inc('++', False, V('vc'))), If(B('==', V('vc'), C(3)), Break(), bare=True)]))])
        yield mkprog(base + '/while', [A(V('vc'), C(0)), A(R(), C(k)), While(B(op, R(), C(k2)), Block([ExprS(Inc('--', False, R())), ExprS(Inc('++', False, V('vc'))), If(B('==', V('vc'), C(3)), Break(), bare=True)]))])
        yield mkprog(base + '/twice', [A(R(), C(k)), If(B(op, R(), C(k2)), one(), two()), If(B(op, R(), C(k2)), A(V('vd'), C(1)), A(V('vd'), C(2)))])
        yield mkprog(base + '/and', [A(R(), C(k)), If(B('&&', B(op, R(), C(k2)), V('vb')), one(), two())])
        yield mkprog(base + '/do', [A(V('vc'), C(0)), A(R(), C(k)), DoWhile(Block([ExprS(Inc('--', False, R())), ExprS(Inc('++', False, V('vc'))), If(B('==', V('vc'), C(3)), Break(), bare=True)]), B(op, R(), C(k2)))])


def g_init(tier):
    """every expression form inside the initialiser of a local variable (parsed through its own operator table)"""
    E = []
    def add(n, f, fn=False): E.append((n, f, fn))
    add('neg', lambda: Un('-', V('vb'))); add('not', lambda: Un('!', V('vb'))); add('bnot', lambda: Un('~', V('vb'))); add('deref', lambda: Deref('pp'))
    add('preinc', lambda: Inc('++', True, V('vb'))); add('predec', lambda: Inc('--', True, V('vb'))); add('postinc', lambda: Inc('++', False, V('vb'))); add('postdec', lambda: Inc('--', False, V('vb')))
    add('call', lambda: Call('f', [V('vb')]), True); add('callsum', lambda: B('+', Call('f', [V('vb')]), C(1)), True); add('callarg', lambda: Call('f', [B('+', V('vb'), V('vc'))]), True)
    add('tern', lambda: Tern(V('vb'), V('vc'), V('vd'))); add('terncmp', lambda: Tern(B('<', V('vb'), V('vc')), C(1), C(2)))
    add('asg', lambda: Assign(V('vb'), '=', V('vc'))); add('casg', lambda: Assign(V('vb'), '+=', V('vc'))); add('shasg', lambda: Assign(V('vb'), '<<=', C(1)))
    add('mul2', lambda: B('*', V('vb'), C(2))); add('mul4', lambda: B('*', V('vb'), C(4))); add('div2', lambda: B('/', V('vb'), C(2)))
    add('idx', lambda: Index('arr', X)); add('idxk', lambda: Index('arr', C(2))); add('idxe', lambda: Index('arr', B('&', V('vb'), C(3)))); add('pY', lambda: Index('pp', Y))
    add('par', lambda: B('-', V('vb'), B('-', V('vc'), V('vd')))); add('parl', lambda: B('-', B('-', V('vb'), V('vc')), V('vd'))); add('negsum', lambda: Un('-', B('+', V('vb'), V('vc'))))
    add('notcmp', lambda: Un('!', B('==', V('vb'), V('vc')))); add('land', lambda: B('&&', V('vb'), V('vc'))); add('lor', lambda: B('||', V('vb'), V('vc'))); add('cmp', lambda: B('<', V('vb'), V('vc')))
    add('k', lambda: C(200)); add('kneg', lambda: C(-3)); add('kexpr', lambda: B('+', C(3), B('*', C(4), C(5)))); add('ku', lambda: V('ku')); add('X', lambda: X); add('Ysum', lambda: B('+', Y, C(1)))
    add('comma', lambda: Comma(Assign(V('vb'), '=', C(3)), B('+', V('vb'), C(1)))); add('w', lambda: V('wb')); add('whi', lambda: B('>>', V('wb'), C(8))); add('sizeof', lambda: B('+', V('vb'), C(1)))
    for (n, e, fn), (tn, lt, dst) in itertools.product(E, (('u8', 'u8', 'va'), ('s8', 's8', 'sa'), ('u16', 'u16', 'wa'))):
        pid = 'deep/init/%s/%s' % (tn, n)
        # (16-bit destinations of composite 8-bit values: known-broken area K13/K14/K16/K18, only plain forms here)
        if tn == 'u16' and n not in ('w', 'whi', 'k', 'kneg', 'kexpr', 'ku', 'idx', 'idxk', 'X', 'par', 'parl', 'mul2', 'deref', 'pY', 'postinc', 'preinc', 'neg', 'idxe'): continue
        if tn == 's8' and not keep(pid, tier, 50): continue
        fi = Func('fi', None, [], Block([A(V(dst), V('l'))], decls=[(lt, 'l', e())]))
        yield mkprog(pid, [ExprS(Call('fi', []))], funcs=([F1()] if fn else []) + [fi], extra_globals=[dst])
    # two locals, the second initialised from the first; a local initialised in a nested block
    fi = Func('fi', None, [], Block([A(V('va'), B('+', V('l'), V('m')))], decls=[('u8', 'l', B('+', V('vb'), C(1))), ('u8', 'm', B('<<', V('l'), C(1)))]))
    yield mkprog('deep/init/two', [ExprS(Call('fi', []))], funcs=[fi], extra_globals=['va', 'vb'])
    fi = Func('fi', 'u8', [('u8', 'p')], Block([Return(B('+', V('l'), V('p')))], decls=[('u8', 'l', B('&', V('p'), C(15)))]))
    yield mkprog('deep/init/param', [A(V('va'), Call('fi', [V('vb')]))], funcs=[fi])


def g_xfn(tier):
    """what the generator remembers (flags, registers) at the end of one function must not be trusted at the start of the next:
    a function ending in a flag-setting statement, followed in the file by a function that starts with a zero test"""
    last = [('X=va', lambda: A(X, V('va'))), ('Y=va', lambda: A(Y, V('va'))), ('va=vb', lambda: A(V('va'), V('vb'))), ('va++', lambda: ExprS(Inc('++', False, V('va')))), ('X++', lambda: ExprS(Inc('++', False, X))),
            ('Y--', lambda: ExprS(Inc('--', False, Y))), ('va=vb+1', lambda: A(V('va'), B('+', V('vb'), C(1)))), ('aX=va', lambda: A(Index('arr', X), V('va'))), ('va=aY', lambda: A(V('va'), Index('arr', Y))),
            ('if', lambda: If(V('va'), A(V('vb'), C(1)))), ('va=0', lambda: A(V('va'), C(0))), ('X=3', lambda: A(X, C(3))), ('cmp', lambda: If(B('<', V('va'), V('vb')), A(V('vd'), C(1)))), ('wa++', lambda: ExprS(Inc('++', False, V('wa')))),
            ('ret', lambda: A(V('vd'), B('&', V('va'), C(1))))]
    for (ln, l), zn in itertools.product(last, ('X', 'Y', 'va', 'vb', 'wa')):
        Z = lambda: V(zn)
        f = lambda: Func('f', None, [], Block([l()]))
        base = 'deep/xfn/%s/%s' % (ln, zn)
        if not keep(base, tier, 60): continue
        yield mkprog(base + '/if', [If(Z(), A(V('vc'), C(1)), A(V('vc'), C(2)))], funcs=[f()], extra_globals=['va', 'vb', 'vd', 'arr', 'wa'])
        yield mkprog(base + '/if0', [If(B('==', Z(), C(0)), A(V('vc'), C(1)), A(V('vc'), C(2)))], funcs=[f()], extra_globals=['va', 'vb', 'vd', 'arr', 'wa'])
        yield mkprog(base + '/while', [While(Z(), Block([A(Z(), C(0)), A(V('vc'), C(1))]))], funcs=[f()], extra_globals=['va', 'vb', 'vd', 'arr', 'wa'])
        yield mkprog(base + '/tern', [A(V('vc'), Tern(Z(), C(1), C(2)))], funcs=[f()], extra_globals=['va', 'vb', 'vd', 'arr', 'wa'])
        yield mkprog(base + '/called-later', [If(Z(), A(V('vc'), C(1)), A(V('vc'), C(2))), ExprS(Call('f', []))], funcs=[f()], extra_globals=['va', 'vb', 'vd', 'arr', 'wa'])
        # the second function is a callee entered from two different flag states
        g = Func('g', None, [], Block([If(Z(), A(V('vc'), C(1)), A(V('vc'), C(2)))]))
        yield mkprog(base + '/callee', [A(V('sb'), C(0)), ExprS(Call('g', [])), A(V('sb'), C(1)), ExprS(Call('g', []))], funcs=[f(), g], extra_globals=['va', 'vb', 'vd', 'arr', 'wa'])


def flag_setters():
    return [('X=va', lambda: A(X, V('va')), 'X'), ('Y=va', lambda: A(Y, V('va')), 'Y'), ('va=vb', lambda: A(V('va'), V('vb')), 'va'), ('va++', lambda: ExprS(Inc('++', False, V('va'))), 'va'), ('X++', lambda: ExprS(Inc('++', False, X)), 'X'),
            ('Y--', lambda: ExprS(Inc('--', False, Y)), 'Y'), ('va=vb+1', lambda: A(V('va'), B('+', V('vb'), C(1))), 'va'), ('va=aY', lambda: A(V('va'), Index('arr', Y)), 'va'), ('va&=3', lambda: A(V('va'), C(3), '&='), 'va'),
            ('X=aY', lambda: A(X, Index('arr', Y)), 'X'), ('wa++', lambda: ExprS(Inc('++', False, V('wa'))), 'wa'), ('wa--', lambda: ExprS(Inc('--', False, V('wa'))), 'wa'), ('--ha', lambda: ExprS(Inc('--', True, V('ha'))), 'ha'),
            ('wa-=1', lambda: A(V('wa'), C(1), '-='), 'wa'), ('wa+=vb', lambda: A(V('wa'), V('vb'), '+='), 'wa'), ('wa=wb', lambda: A(V('wa'), V('wb')), 'wa'), ('sa=sb', lambda: A(V('sa'), V('sb')), 'sa'), ('va=f', lambda: A(V('va'), Call('f', [V('vb')])), 'va')]


def g_flagctx(tier):
    """a statement that leaves the flags describing Z, then an if/else (or a loop) whose condition is about OTHER values, then a
    zero test of Z in the else branch / the then branch / after the statement: the generator saves and restores its flag knowledge
    around the branches of an if"""
    conds = [('Y==3', lambda: B('==', Y, C(3))), ('vb<vc', lambda: B('<', V('vb'), V('vc'))), ('aY==1', lambda: B('==', Index('brr', Y), C(1))), ('w256', lambda: B('==', V('wb'), C(256))), ('vd', lambda: V('vd')),
             ('X<2', lambda: B('<', X, C(2))), ('and', lambda: B('&&', V('vb'), V('vc')))]
    one, two, three = (lambda: A(V('sc'), C(1))), (lambda: A(V('sc'), C(2))), (lambda: A(V('sc'), C(3)))
    for (sn, s, z), (cn, cnd) in itertools.product(flag_setters(), conds):
        if z in cn: continue
        Z = lambda: V(z)
        fn = [F1()] if sn == 'va=f' else []
        base = 'deep/flagctx/%s/%s' % (sn, cn)
        if not keep(base, tier, 50): continue
        for zn, zt in (('nz', lambda: Z()), ('z', lambda: B('==', Z(), C(0)))):
            if cn == 'vd':
                # (once per setter) the zero test directly after the statement, as a condition and as a loop condition
                yield mkprog('deep/flagctx/%s/direct/%s' % (sn, zn), [s(), If(zt(), two(), three())], funcs=fn)
                yield mkprog('deep/flagctx/%s/direct-while/%s' % (sn, zn), [s(), A(V('hc'), C(2)), While(B('&&', zt(), V('hc')), ExprS(Inc('--', False, V('hc')))), A(V('sc'), C(1))], funcs=fn)
                yield mkprog('deep/flagctx/%s/direct-tern/%s' % (sn, zn), [s(), A(V('sc'), Tern(zt(), C(2), C(3)))], funcs=fn)
            yield mkprog(base + '/else/' + zn, [s(), If(cnd(), one(), If(zt(), two(), three()))], funcs=fn)
            yield mkprog(base + '/then/' + zn, [s(), If(cnd(), If(zt(), one(), two()), three())], funcs=fn)
            yield mkprog(base + '/after/' + zn, [s(), If(cnd(), A(V('hc'), C(1))), If(zt(), two(), three())], funcs=fn)
            yield mkprog(base + '/after-else/' + zn, [s(), If(cnd(), A(V('hc'), C(1)), A(V('hc'), C(2))), If(zt(), two(), three())], funcs=fn)
            yield mkprog(base + '/else-bare/' + zn, [s(), If(cnd(), one(), If(zt(), two(), three(), bare=True), bare=True)], funcs=fn)
            yield mkprog(base + '/while/' + zn, [s(), A(V('hc'), C(2)), While(B('&&', cnd(), V('hc')), ExprS(Inc('--', False, V('hc')))), If(zt(), two(), three())], funcs=fn)
            yield mkprog(base + '/tern/' + zn, [s(), A(V('sc'), Tern(cnd(), C(1), Tern(zt(), C(2), C(3))))], funcs=fn)
            yield mkprog(base + '/switch/' + zn, [s(), Switch(V('vd'), [(1, [If(zt(), one(), two()), Break()]), (None, [If(zt(), two(), three())])])], funcs=fn)


def g_params(tier):
    """functions with several parameters of mixed width and signedness; the body is sensitive to the type of ONE of them"""
    T = ['u8', 's8', 'u16', 's16', 'pc8', 'pi16', 'ps16']
    SIGNED = ('s8', 's16', 'pi16', 'ps16')
    uses = [('lt', lambda p, t: Return(Tern(B('<', V(p), C(100)), C(1), C(2)))), ('gt', lambda p, t: Return(Tern(B('>', V(p), C(5)), C(1), C(2)))), ('widen', lambda p, t: Block([A(V('ha'), V(p)), Return(B('>>', V('ha'), C(8)))])),
            ('shr', lambda p, t: Return(B('>>', V(p), C(1)))), ('cmpvar', lambda p, t: Return(Tern(B('<', V(p), V('q0' if p != 'q0' else 'q1')), C(1), C(2)))), ('neg', lambda p, t: Block([A(V('ha'), Un('-', V(p))), Return(B('>>', V('ha'), C(8)))])),
            ('sum', lambda p, t: Block([A(V('wa'), B('+', V(p), V('wb'))), Return(B('>>', V('wa'), C(8)))]))]
    argsrc = {'u8': ['va', 'vb', 'vc'], 's8': ['sa', 'sb', 'sc'], 'u16': ['wa', 'wb', 'wc'], 's16': ['ha', 'hb', 'hc'], 'pc8': ['va', 'vb', 'vc'], 'pi16': ['ha', 'hb', 'hc'], 'ps16': ['ha', 'hb', 'hc']}
    for t0, t1, t2 in itertools.product(T, T, ('u8', 's8', 'pc8', 'pi16')):
        for which, (un, use) in itertools.product((0, 1, 2), uses):
            pid = 'deep/params/%s-%s-%s/q%d/%s' % (t0, t1, t2, which, un)
            if not keep(pid, tier, 8): continue
            ts = [t0, t1, t2]
            if un == 'cmpvar' and ts[which] != ts[0 if which else 1]: continue      # mixed-type comparisons: known-broken area
            if un in ('lt', 'gt', 'cmpvar') and ts[which] in SIGNED: continue   # signed comparisons: known-broken area (K08)
            body = use('q%d' % which, ts[which])
            f = Func('f', 'u8', [(t, 'q%d' % k) for k, t in enumerate(ts)], body if isinstance(body, Block) else Block([body]))
            args = [V(argsrc[t][k]) for k, t in enumerate(ts)]
            yield mkprog(pid, [A(V('vd'), Call('f', args))], funcs=[f], extra_globals=['ha', 'wa', 'wb'])


def g_plain(tier):
    """variables declared with the plain spellings `char`, `int`, `short` (default signedness) in global, local and parameter position"""
    yield mkprog('deep/plain/widen-char', [A(V('wa'), V('pa')), A(V('ha'), V('pb'))])
    yield mkprog('deep/plain/widen-sum', [A(V('wa'), B('+', V('pa'), V('wb')))])
    yield mkprog('deep/plain/cmp-char', [If(B('>', V('pa'), C(200)), A(V('vc'), C(1)), A(V('vc'), C(2)))])
    yield mkprog('deep/plain/cmp-chars', [If(B('<', V('pa'), V('pb')), A(V('vc'), C(1)), A(V('vc'), C(2)))])
    yield mkprog('deep/plain/shr-char', [A(V('va'), B('>>', V('pa'), C(1)))])
    yield mkprog('deep/plain/neg-char', [A(V('ha'), Un('-', V('pa')))])
    yield mkprog('deep/plain/int-copy', [A(V('ha'), V('pw')), A(V('px'), V('ha')), A(V('wa'), V('px'))])
    yield mkprog('deep/plain/int-from-signed-char', [A(V('pw'), V('sa')), A(V('px'), V('pa'))])
    yield mkprog('deep/plain/int-add', [A(V('pw'), B('+', V('px'), C(300)))])
    for lt in ('pc8', 'pi16', 'ps16'):
        fi = Func('fi', None, [], Block([A(V('ha'), V('l'))], decls=[(lt, 'l', V('sa'))]))
        yield mkprog('deep/plain/local-from-signed/%s' % lt, [ExprS(Call('fi', []))], funcs=[fi], extra_globals=['ha', 'sa'])
        fi = Func('fi', None, [], Block([A(V('wa'), V('l'))], decls=[(lt, 'l', V('va'))]))
        yield mkprog('deep/plain/local-from-unsigned/%s' % lt, [ExprS(Call('fi', []))], funcs=[fi], extra_globals=['wa', 'va'])
        if lt == 'pc8': continue          # (an 8-bit result assigned to a 16-bit destination: known K14)
        f = Func('f', lt, [(lt, 'p')], Block([Return(V('p'))]))
        yield mkprog('deep/plain/ret/%s' % lt, [A(V('ha'), Call('f', [V('sa')])), A(V('wa'), Call('f', [V('va')]))], funcs=[f])


def g_self(tier):
    """an index register reloaded from the element it indexes (a linked list walk), register moves, then the element is read again"""
    for rn in ('X', 'Y'):
        R = lambda: V(rn); O = lambda: V('Y' if rn == 'X' else 'X')
        firsts = [('R=a[R]', lambda: A(R(), Index('arr', R()))), ('R=a[R]+1', lambda: A(R(), B('+', Index('arr', R()), C(1)))), ('R=a[R]&3', lambda: A(R(), B('&', Index('arr', R()), C(3)))), ('va=a[R];R=va', None)]
        if rn == 'Y': firsts.append(('R=p[R]', lambda: A(R(), Index('pp', R()))))
        mids = [('none', None), ('O=R', lambda: A(O(), R())), ('R=O', lambda: A(R(), O())), ('va=R', lambda: A(V('va'), R())), ('R++', lambda: ExprS(Inc('++', False, R()))), ('O=a[R]', lambda: A(O(), Index('arr', R()))),
                ('sa=O', lambda: A(V('sa'), O())), ('a[R]=O', lambda: A(Index('brr', R()), O()))]
        lasts = [('vb=a[R]', lambda: A(V('vb'), Index('arr', R()))), ('if', lambda: If(B('==', Index('arr', R()), C(1)), A(V('vc'), C(1)), A(V('vc'), C(2)))), ('vb=a[R]+1', lambda: A(V('vb'), B('+', Index('arr', R()), C(1)))),
                 ('vb=a[O]', lambda: A(V('vb'), Index('arr', O())))]
        for (fn_, f), (mn, m), (ln, l) in itertools.product(firsts, mids, lasts):
            head = [A(V('va'), Index('arr', R())), A(R(), V('va'))] if f is None else [f()]
            st = head + ([m()] if m else []) + [l()]
            yield mkprog('deep/self/%s/%s/%s/%s' % (rn, fn_, mn, ln), st)
            # the same with a register test and a forward branch between the reload and its uses (a compare of the register with a
            # constant clears nothing the optimiser knows), and a following constant store (the look-ahead needs a next load)
            rest = lambda: ([m()] if m else []) + [l(), A(V('vd'), C(0))]
            yield mkprog('deep/self-if/%s/%s/%s/%s' % (rn, fn_, mn, ln), head + [If(B('!=', R(), C(255)), Block(rest()))])
            if keep('deep/self-if0/%s/%s/%s/%s' % (rn, fn_, mn, ln), tier, 50):
                yield mkprog('deep/self-if0/%s/%s/%s/%s' % (rn, fn_, mn, ln), head + [If(R(), Block(rest()), A(V('vd'), C(9)))])
                yield mkprog('deep/self-tail/%s/%s/%s/%s' % (rn, fn_, mn, ln), head + rest())
            if mn != 'none' and keep('deep/self2/%s/%s/%s/%s' % (rn, fn_, mn, ln), tier, 40):
                yield mkprog('deep/self2/%s/%s/%s/%s' % (rn, fn_, mn, ln), st + [m(), l()])


def g_guarded(tier):
    """peephole sequences (sandwiches a;b;a, flag interplay, aliasing) with a register test and a forward branch after the first
    statement and a constant store at the end: a compare of X / Y with a constant forgets nothing the optimiser knows, and its
    look-ahead rules need a following load"""
    import families, copy
    for p in families.g_peep('quick'):
        if not p.pid.startswith(('peep/s/', 'peep/f/', 'peep/a/')): continue
        st = p.main.stmts
        if len(st) < 2: continue
        for rn in ('X', 'Y'):
            pid = 'deep/guard/%s/%s' % (rn, p.pid)
            if not keep(pid, tier, 12): continue
            q = copy.copy(p); q.pid = pid
            q.main = Block([st[0], If(B('!=', V(rn), C(255)), Block(list(st[1:]) + [A(V('hc'), C(0))]))])
            q.globs = list(p.globs) + ([('s16', 'hc')] if 'hc' not in p.gnames() else [])
            yield q


def g_retest(tier):
    """a value is read (tested or copied), overwritten by a store that does not go through the accumulator (from X / Y, ++, a
    constant), and read again: what the optimiser remembers about the accumulator must not survive the store - also when the
    variable's read and write addresses are spelled differently (split-port RAM, C17)"""
    vars_ = [('va', lambda: V('va')), ('a1', lambda: Index('arr', C(1))), ('aX', lambda: Index('arr', X)), ('aY', lambda: Index('arr', Y)), ('wa', lambda: V('wa'))]
    stores = [('=X', lambda v: A(v(), X)), ('=Y', lambda v: A(v(), Y)), ('=vb', lambda v: A(v(), V('vb'))), ('++', lambda v: ExprS(Inc('++', False, v()))), ('=0', lambda v: A(v(), C(0))), ('=3', lambda v: A(v(), C(3))),
              ('+=X', lambda v: A(v(), X, '+=')), ('=vb+1', lambda v: A(v(), B('+', V('vb'), C(1))))]
    for (vn, v), (sn, s) in itertools.product(vars_, stores):
        if vn == 'aX' and sn in ('=X', '+=X') or vn == 'aY' and sn == '=Y': pass
        base = 'deep/retest/%s/%s' % (vn, sn)
        yield mkprog(base + '/nested-if', [If(B('==', v(), C(3)), Block([s(v), If(B('==', v(), C(3)), A(V('vc'), C(1)), A(V('vc'), C(2)))]), A(V('vc'), C(9)))])
        yield mkprog(base + '/copy', [A(V('vd'), v()), s(v), A(V('vc'), v())])
        yield mkprog(base + '/cmp-then-copy', [If(B('<', v(), C(5)), Block([s(v), A(V('vc'), v()), A(V('vd'), C(0))]))])
        if keep(base, tier, 50):
            yield mkprog(base + '/and', [If(B('&&', B('==', v(), C(3)), Comma(Assign(v(), '=', X) if sn == '=X' else Assign(v(), '=', V('vb')), B('==', v(), C(3)))), A(V('vc'), C(1)), A(V('vc'), C(2)))])
            yield mkprog(base + '/while', [A(V('vd'), C(2)), While(B('&&', B('!=', v(), C(3)), V('vd')), Block([s(v), ExprS(Inc('--', False, V('vd')))]))])
            yield mkprog(base + '/twice', [A(V('vd'), v()), s(v), A(V('vc'), v()), s(v), A(V('sb'), v())])


def g_deep(tier):
    yield from g_retest(tier)
    yield from g_flagctx(tier)
    yield from g_params(tier)
    yield from g_plain(tier)
    yield from g_self(tier)
    yield from g_xfn(tier)
    yield from g_init(tier)
    yield from g_regconst(tier)
    yield from g_bare(tier)
    yield from g_nasg(tier)
    yield from g_ctx(tier)
    yield from g_nest(tier)
    yield from g_asg(tier)
    yield from g_cmp(tier)
    yield from g_kcond(tier)
    yield from g_brk(tier)
    yield from g_tern(tier)
    yield from g_idx(tier)
    yield from g_sh16(tier)
    yield from g_loops(tier)

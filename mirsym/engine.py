#!/usr/bin/env python3
"""mirsym: a small symbolic executor for rustc MIR text (cargo +nightly rustc -- -Zunpretty=mir) of cc6502.
Machine integers are z3 bit-vectors of their declared width; enums are (discriminant, per-variant field cells);
calls are inlined (allow-list), modelled (Python models of library functions) or uninterpreted (fresh value + event)."""
import re, sys, time, copy, glob
import z3

# ----------------------------------------------------------------------------- source facts
def parse_enums_structs(root):
    enums, structs = {}, {}
    for f in glob.glob(root + '/**/*.rs', recursive=True):
        s = open(f).read()
        s = re.sub(r'//[^\n]*', '', s)
        for m in re.finditer(r'enum (\w+)\s*\{(.*?)\n\}', s, re.S):
            body = m.group(2)
            vs, depth, cur = [], 0, ''
            for ch in body:
                if ch in '({<': depth += 1
                if ch in ')}>': depth -= 1
                if ch == ',' and depth == 0:
                    vs.append(cur.strip()); cur = ''
                else:
                    cur += ch
            if cur.strip(): vs.append(cur.strip())
            enums[m.group(1)] = [re.match(r'(\w+)', v).group(1) for v in vs if re.match(r'(\w+)', v)]
        for m in re.finditer(r'struct (\w+)(?:<[^>]*>)?\s*\{(.*?)\n\}', s, re.S):
            fs, depth, cur = [], 0, ''
            for ch in m.group(2) + ',':
                if ch in '(<[{': depth += 1
                elif ch in ')>]}': depth -= 1
                if ch == ',' and depth == 0:
                    fm = re.match(r'\s*(?:#\[[^\]]*\]\s*)*(?:pub(?:\([^)]*\))?\s+)?(\w+)\s*:(?!:)', cur)
                    if fm: fs.append(fm.group(1))
                    cur = ''
                else: cur += ch
            structs[m.group(1)] = fs
    return enums, structs

import os
ENUMS, STRUCTS = parse_enums_structs(os.path.join(os.environ.get('VERIF_REPO', '/repo'), 'src'))
ENUMS['Option'] = ['None', 'Some']
ENUMS['Result'] = ['Ok', 'Err']
ENUMS['ControlFlow'] = ['Continue', 'Break']
STRUCTS['Range'] = ['start', 'end']

# ----------------------------------------------------------------------------- MIR parsing
class Body:
    def __deepcopy__(self, memo): return self
    def __init__(self, name, lines):
        self.name, self.types, self.blocks, self.args = name, {}, {}, []
        self.debug = {}
        m = re.match(r'(?:fn|const) (.*?)\((.*)\) -> (.*) \{$', lines[0]) or re.match(r'(const) (.*?): (.*) = \{$', lines[0])
        cur = None
        for l in lines[1:]:
            s = l.strip()
            m = re.match(r'let (?:mut )?(_\d+): (.*);$', s)
            if m: self.types[m.group(1)] = m.group(2); continue
            m = re.match(r'debug (\w+) => (_\d+);$', s)
            if m: self.debug.setdefault(m.group(1), []).append(m.group(2)); continue
            m = re.match(r'(bb\d+)(?: \(cleanup\))?: \{$', s)
            if m: cur = m.group(1); self.blocks[cur] = []; continue
            if s == '}': cur = None; continue
            if cur is not None and s and not s.startswith('//'):
                self.blocks[cur].append(re.sub(r'\s*// .*$', '', s))
        hm = re.match(r'fn .*?\((.*)\) -> (.*) \{$', lines[0])
        if hm:
            for a in split_top(hm.group(1)):
                am = re.match(r'\s*(_\d+): (.*)$', a)
                if am: self.types[am.group(1)] = am.group(2); self.args.append(am.group(1))
            self.types['_0'] = hm.group(2)

def split_top(a, sep=','):
    out, d, cur, q = [], 0, '', False
    i = 0
    while i < len(a):
        ch = a[i]
        if ch == '"' and (i == 0 or a[i-1] != '\\'): q = not q
        if not q:
            if ch in '([{<': d += 1
            if ch in ')]}>' and not (ch == '>' and a[i-1] == '-'): d -= 1
        if ch == sep and d == 0 and not q:
            out.append(cur); cur = ''
        else:
            cur += ch
        i += 1
    if cur.strip(): out.append(cur)
    return [x.strip() for x in out]

class Mir:
    def __init__(self, path):
        self.lines = open(path).read().split('\n')
        self.index = {}
        for i, l in enumerate(self.lines):
            if l.startswith('fn ') or l.startswith('const '):
                m = re.match(r'fn (.*?)\((?:_\d+: |\))', l) or re.match(r'const (.*promoted\[\d+\])', l)
                if m: self.index.setdefault(m.group(1), i)
        self.cache = {}
    def body(self, name):
        if name not in self.cache:
            i = self.index[name]; j = i
            while self.lines[j] != '}': j += 1
            self.cache[name] = Body(name, self.lines[i:j + 1])
        return self.cache[name]
    def find(self, suffix):
        c = [n for n in self.index if n.endswith(suffix)]
        if len(c) != 1: raise KeyError('%s -> %s' % (suffix, c))
        return c[0]

# ----------------------------------------------------------------------------- values
class Cell:
    __slots__ = ('v',)
    def __init__(self, v=None): self.v = v
class Ref:
    def __init__(self, cell): self.cell = cell
class Adt:      # enum or struct or tuple
    def __init__(self, name, discr=None): self.name, self.discr, self.fields = name, discr, {}
    def field(self, variant, k, ty, ctx):
        key = (variant, k)
        if key not in self.fields: self.fields[key] = Cell(ctx.fresh(ty, '%s.%s.%s' % (self.name, variant, k)))
        return self.fields[key]
class Opaque:
    def __init__(self, tag, payload=None): self.tag, self.payload = tag, payload
    def __repr__(self): return 'Opaque(%s)' % self.tag
class Str:      # concrete string-ish value (String / &str), or formatted term
    def __init__(self, parts): self.parts = parts      # list of python str or ('arg', value)
    def __repr__(self): return 'Str(%r)' % (self.parts,)
class Lazy:
    def __init__(self, ty, hint): self.ty, self.hint = ty, hint

INT = {'i8': 8, 'u8': 8, 'i16': 16, 'u16': 16, 'i32': 32, 'u32': 32, 'i64': 64, 'u64': 64, 'isize': 64, 'usize': 64}
SIGNED = {'i8', 'i16', 'i32', 'i64', 'isize'}

class Panic(Exception): pass
class Unsupported(Exception): pass

class Ctx:
    def __init__(self, mir):
        self.mir = mir; self.solver = z3.Solver(); self.nq = 0; self.n = 0; self.constraints = []
    def sym(self, sort, hint):
        self.n += 1
        nm = '%s!%d' % (hint, self.n)
        return z3.Bool(nm) if sort == 'bool' else z3.BitVec(nm, sort)
    def fresh(self, ty, hint):
        ty = ty.strip()
        if ty == 'bool': return self.sym('bool', hint)
        if ty in INT: return self.sym(INT[ty], hint)
        if ty.startswith('&'):
            inner = re.sub(r"^&(?:'\w+ )?(?:mut )?", '', ty)
            return Ref(Cell(self.fresh(inner, hint)))
        base = re.sub(r'<.*', '', ty).split('::')[-1]
        if base in ENUMS:
            d = self.sym(8, hint + '.discr')
            if len(ENUMS[base]) < 256: self.constraints.append(z3.ULT(d, len(ENUMS[base])))
            return Adt(base, d)
        if base in ('String', 'str'): return Opaque('str', hint)
        return Adt(base, None) if base in STRUCTS or ty.startswith('(') else Lazy(ty, hint)
    def feasible(self, conds):
        self.nq += 1
        self.solver.push(); self.solver.add(*self.constraints); self.solver.add(*conds)
        r = self.solver.check(); self.solver.pop()
        return r == z3.sat

class Path:
    def __init__(self): self.pc, self.events, self.frames = [], [], []
class Frame:
    def __init__(self, body, ret_cell, ret_bb): self.body, self.env, self.ret_cell, self.ret_bb, self.bb = body, {}, ret_cell, ret_bb, 'bb0'

# ----------------------------------------------------------------------------- interpreter
class Interp:
    def __init__(self, ctx, inline=(), models=None):
        self.ctx, self.inline, self.models = ctx, list(inline), models or {}
        self.results = []
        self.assume_some = True
    # -- places
    def place(self, fr, pl):
        pl = pl.strip()
        if re.match(r'_\d+$', pl):
            if pl not in fr.env: fr.env[pl] = Cell(self.ctx.fresh(fr.body.types.get(pl, '?'), pl))
            return fr.env[pl]
        m = re.match(r'\(\*(.*)\)$', pl)
        if m and balanced(m.group(1)):
            c = self.place(fr, m.group(1))
            if isinstance(c.v, Lazy): c.v = self.ctx.fresh(c.v.ty, c.v.hint)
            if not isinstance(c.v, Ref): raise Unsupported('deref of %r in %s' % (c.v, pl))
            return c.v.cell
        m = re.match(r'\((.*)\.(\d+): (.*)\)$', pl)
        if m and balanced(m.group(1)):
            inner, k, ty = m.group(1), int(m.group(2)), m.group(3)
            vm = re.match(r'\((.*) as (\w+)\)$', inner)
            variant = ''
            if vm and balanced(vm.group(1)): inner, variant = vm.group(1), vm.group(2)
            c = self.place(fr, inner)
            if isinstance(c.v, Lazy): c.v = Adt(c.v.ty, None)
            if isinstance(c.v, tuple):       # (result, overflow) pairs
                return Cell(c.v[k])
            if not isinstance(c.v, Adt): raise Unsupported('field of %r in %s' % (c.v, pl))
            return c.v.field(variant, k, ty, self.ctx)
        raise Unsupported('place ' + pl)
    # -- operands
    def operand(self, fr, tok):
        tok = tok.strip()
        m = re.match(r'(?:no_retag )?(copy|move) (.*)$', tok)
        if m: return self.place(fr, m.group(2)).v
        if tok.startswith('const '): return self.const(fr, tok[6:])
        return self.place(fr, tok).v
    def const(self, fr, c):
        m = re.match(r'(-?\d+)_(\w+)$', c)
        if m: return z3.BitVecVal(int(m.group(1)), INT[m.group(2)])
        m = re.match(r'(\w+)::(MIN|MAX)$', c)
        if m and m.group(1) in INT:
            n = INT[m.group(1)]; sg = m.group(1) in SIGNED
            v = (-(1 << (n - 1)) if sg else 0) if m.group(2) == 'MIN' else ((1 << (n - 1)) - 1 if sg else (1 << n) - 1)
            return z3.BitVecVal(v, n)
        if c in ('true', 'false'): return z3.BoolVal(c == 'true')
        if c.startswith('"'): return Str([eval(c)])
        if c.startswith('b"'): return Opaque('fmt-template', eval(c))
        m = re.search(r'::promoted\[(\d+)\]$', c)
        if m:
            b = self.ctx.mir.body(fr.body.name + '::promoted[%s]' % m.group(1))
            f2 = Frame(b, None, None)
            for s in b.blocks['bb0']:
                if s == 'return;': break
                self.assign(f2, s)
            return f2.env['_0'].v
        if c == '()': return Opaque('unit')
        if c.startswith("'") and c.endswith("'"): return z3.BitVecVal(ord(eval(c)), 32)
        return Opaque('const', c)
    # -- rvalues
    def assign(self, fr, s):
        m = re.match(r'(.+?) = (.*);$', s)
        dst, rv = m.group(1), m.group(2)
        self.place(fr, dst).v = self.rvalue(fr, rv, dst)
    def rvalue(self, fr, rv, dst):
        rv = rv.strip()
        if rv.startswith('{closure@'): return Opaque('closure-value')
        if rv.startswith('&'):
            return Ref(self.place(fr, re.sub(r'^&(?:raw )?(?:mut |const )?', '', rv)))
        m = re.match(r'(\w+)\((.*)\)$', rv)
        if m and m.group(1) == 'discriminant':
            c = self.place(fr, m.group(2))
            if isinstance(c.v, Lazy): c.v = self.ctx.fresh(c.v.ty, c.v.hint)
            if not isinstance(c.v, Adt) or c.v.discr is None: raise Unsupported('discriminant of %r' % (c.v,))
            d = c.v.discr
            return z3.BitVecVal(d, 64) if isinstance(d, int) else z3.ZeroExt(64 - d.size(), d)
        if m and m.group(1) in ('AddWithOverflow', 'SubWithOverflow', 'MulWithOverflow'):
            a, b = [self.operand(fr, x) for x in split_top(m.group(2))]
            signed = self.ty_of_operand(fr, split_top(m.group(2))[0]) in SIGNED
            ext = z3.SignExt if signed else z3.ZeroExt
            n = a.size(); ea, eb = ext(n, a), ext(n, b)
            full = {'Add': ea + eb, 'Sub': ea - eb, 'Mul': ea * eb}[m.group(1)[:3]]
            res = z3.Extract(n - 1, 0, full)
            return (res, ext(n, res) != full)
        if m and m.group(1) in ('Eq','Ne','Lt','Le','Gt','Ge','BitAnd','BitOr','BitXor','Add','Sub','Mul','Div','Rem','Shr','Shl','Not','Neg'):
            args = [self.operand(fr, x) for x in split_top(m.group(2))]
            signed = self.ty_of_operand(fr, split_top(m.group(2))[0]) in SIGNED
            return self.binop(m.group(1), args, signed)
        m = re.match(r'(.*) as (\w+) \((\w+)\)$', rv)
        if m:
            v = self.operand(fr, m.group(1)); to = m.group(2)
            if to in INT and z3.is_bv(v):
                n = INT[to]
                if v.size() == n: return v
                if v.size() > n: return z3.Extract(n - 1, 0, v)
                return (z3.SignExt if self.ty_of_operand(fr, m.group(1)) in SIGNED else z3.ZeroExt)(n - v.size(), v)
            if to in INT and (isinstance(v, bool) or z3.is_bool(v)):
                # `cond as i32`: 0 / 1
                n = INT[to]
                if isinstance(v, bool): return z3.BitVecVal(1 if v else 0, n)
                return z3.If(v, z3.BitVecVal(1, n), z3.BitVecVal(0, n))
            return v
        # aggregates
        head, aargs = split_head(rv)
        hs = strip_generics(head).split('::')
        if len(hs) >= 2 and hs[-2] in ENUMS and hs[-1] in ENUMS[hs[-2]]:
            en, vn = hs[-2], hs[-1]
            a = Adt(en, ENUMS[en].index(vn))
            if aargs is not None:
                for k, x in enumerate(split_top(aargs)): a.fields[(vn, k)] = Cell(self.operand(fr, x))
            return a
        m = re.match(r'([\w:<>, ]+?) \{ (.*) \}$', rv)
        if m:
            name = strip_generics(m.group(1)).rstrip(':').split('::')[-1]
            a = Adt(name, None)
            for fld in split_top(m.group(2)):
                fn, fv = fld.split(': ', 1)
                idx = STRUCTS[name].index(fn) if name in STRUCTS and fn in STRUCTS[name] else fn
                a.fields[('', idx)] = Cell(self.operand(fr, fv))
            return a
        if rv.startswith('(') and rv.endswith(')') and balanced(rv[1:-1]):
            a = Adt('tuple', None)
            for k, x in enumerate(split_top(rv[1:-1])): a.fields[('', k)] = Cell(self.operand(fr, x))
            return a
        if rv.startswith('[') and rv.endswith(']'):
            a = Adt('array', None)
            for k, x in enumerate(split_top(rv[1:-1])): a.fields[('', k)] = Cell(self.operand(fr, x))
            return a
        if re.match(r'[A-Za-z][\w:]*$', rv) and '::' in rv: return Opaque('path', rv)
        return self.operand(fr, rv)
    def ty_of_operand(self, fr, tok):
        m = re.search(r'(_\d+)', tok)
        t = fr.body.types.get(m.group(1), '') if m else ''
        pm = re.search(r': (\w+)\)$', tok.strip())
        if pm: t = pm.group(1)
        cm = re.search(r'_(\w+)$', tok.strip())
        if tok.strip().startswith('const') and cm: t = cm.group(1)
        return re.sub(r"^&(?:'\w+ )?(?:mut )?", '', t)
    def binop(self, op, a, signed):
        x = a[0]; y = a[1] if len(a) > 1 else None
        if op == 'Not': return z3.Not(x) if z3.is_bool(x) else ~x
        if op == 'Neg': return -x
        if op in ('Shl', 'Shr') and x.size() != y.size():
            y = z3.Extract(x.size() - 1, 0, y) if y.size() > x.size() else z3.ZeroExt(x.size() - y.size(), y)
        if z3.is_bool(x):
            return {'Eq': x == y, 'Ne': x != y, 'BitAnd': z3.And(x, y), 'BitOr': z3.Or(x, y), 'BitXor': z3.Xor(x, y)}[op]
        T = {'Eq': lambda: x == y, 'Ne': lambda: x != y,
             'Lt': lambda: x < y if signed else z3.ULT(x, y), 'Le': lambda: x <= y if signed else z3.ULE(x, y),
             'Gt': lambda: x > y if signed else z3.UGT(x, y), 'Ge': lambda: x >= y if signed else z3.UGE(x, y),
             'BitAnd': lambda: x & y, 'BitOr': lambda: x | y, 'BitXor': lambda: x ^ y,
             'Add': lambda: x + y, 'Sub': lambda: x - y, 'Mul': lambda: x * y,
             'Div': lambda: x / y if signed else z3.UDiv(x, y), 'Rem': lambda: z3.SRem(x, y) if signed else z3.URem(x, y),
             'Shr': lambda: x >> y if signed else z3.LShR(x, y), 'Shl': lambda: x << y}
        return T[op]()
    # -- driver
    def run(self, entry, args, max_steps=400, max_paths=5000, budget_s=None):
        t_end = time.time() + budget_s if budget_s else None
        p = Path(); fr = Frame(self.ctx.mir.body(entry), Cell(), None)
        for a, v in zip(fr.body.args, args): fr.env[a] = Cell(v)
        p.frames.append(fr)
        work = [(p, 0)]
        while work:
            p, steps = work.pop()
            self.iters = getattr(self, 'iters', 0) + 1
            if t_end and self.iters % 50 == 0 and time.time() > t_end: raise Unsupported('time budget of %ss exhausted' % budget_s)
            if steps > max_steps: self.results.append(('boundhit', p)); continue
            if len(self.results) > max_paths: raise Unsupported('too many paths')
            try:
                nxt = self.step_block(p)
            except Panic as e:
                self.results.append(('panic', p, str(e))); continue
            for q in nxt: work.append((q, steps + 1))
        return self.results
    def fork(self, p, conds_targets):
        """conds_targets: list of (cond or None, callback(path)) ; returns list of new paths"""
        out = []
        feas = [(c, cb) for c, cb in conds_targets if c is None or self.ctx.feasible(p.pc + [c])]
        for i, (c, cb) in enumerate(feas):
            q = p if i == len(feas) - 1 else copy.deepcopy(p)
            if c is not None: q.pc.append(c)
            r = cb(q)
            if r is not None: out.append(q)
        return out
    def step_block(self, p):
        fr = p.frames[-1]
        stmts = fr.body.blocks[fr.bb]
        for s in stmts[:-1]:
            try:
                self.assign(fr, s)
            except (Panic, Unsupported):
                raise
            except Exception as e:
                raise Unsupported('cannot execute `%s` in %s %s: %r' % (s, fr.body.name, fr.bb, e))
        t = stmts[-1]
        if t.startswith('goto -> '): fr.bb = t[8:-1]; return [p]
        if t == 'return;':
            ret = fr.env.get('_0', Cell(Opaque('unit'))).v
            p.frames.pop()
            if not p.frames:
                self.results.append(('return', p, ret)); return []
            caller = p.frames[-1]
            fr.ret_cell.v = ret; caller.bb = fr.ret_bb
            return [p]
        if t == 'unreachable;': raise Panic('unreachable terminator')
        m = re.match(r'switchInt\((.*?)\) -> \[(.*)\];$', t)
        if m:
            v = self.operand(fr, m.group(1)); arms = []; taken = []
            depth = len(p.frames)
            for arm in m.group(2).split(', '):
                k, tgt = arm.split(': ')
                if k == 'otherwise': c = z3.And(*[z3.Not(x) for x in taken]) if taken else None
                else:
                    c = (v if int(k) != 0 else z3.Not(v)) if z3.is_bool(v) else (v == z3.BitVecVal(int(k), v.size()))
                    taken.append(c)
                c = z3.simplify(c) if c is not None else None
                if c is not None and z3.is_false(c): continue
                if c is not None and z3.is_true(c): c = None
                arms.append((c, (lambda tg: (lambda q: setattr(q.frames[depth - 1], 'bb', tg) or True))(tgt)))
            return self.fork(p, arms)
        m = re.match(r'assert\((!?)(.*?), ".*\) -> \[success: (bb\d+), unwind.*\];$', t)
        if m:
            c = self.operand(fr, m.group(2))
            if m.group(1) == '!': c = z3.Not(c)
            depth = len(p.frames); tgt = m.group(3); msg = t[:70]
            def fail(q): self.results.append(('panic', q, 'assert ' + msg)); return None
            return self.fork(p, [(z3.Not(c), fail), (c, lambda q: setattr(q.frames[depth - 1], 'bb', tgt) or True)])
        m = re.match(r'drop\(.*\) -> \[return: (bb\d+), unwind.*\];$', t)
        if m: fr.bb = m.group(1); return [p]
        m = re.match(r'(.*\)) -> (?:\[return: (bb\d+), unwind.*\]|(bb\d+)|unwind continue);$', t)
        if m:
            lhs, ret = m.group(1), m.group(2)
            d = 0
            for i in range(len(lhs) - 1, -1, -1):
                if lhs[i] == ')': d += 1
                elif lhs[i] == '(':
                    d -= 1
                    if d == 0: break
            pre, args = lhs[:i], lhs[i + 1:-1]
            dm = re.match(r'(.+?) = (.*)$', pre)
            dst, callee = (dm.group(1), dm.group(2)) if dm and not pre.startswith('<') else (None, pre)
            if dm and pre.startswith('<'):   # callee starting with '<' but with a destination
                dst, callee = dm.group(1), dm.group(2)
            return self.call(p, fr, dst, callee.strip(), args, ret, t)
        raise Unsupported('terminator ' + t)
    def call(self, p, fr, dst, callee, args, ret, text):
        argv = [self.operand(fr, a) for a in split_top(args)]
        if ret is None:
            raise Panic('diverging call ' + callee)
        dcell = self.place(fr, dst) if dst else Cell()
        for pat, fn in self.models.items():
            if re.search(pat, callee):
                r = fn(self, p, fr, callee, argv, dcell, ret)
                if r is not None: return r
        for pat in self.inline:
            if re.search(pat, callee):
                name = self.resolve(callee)
                b = self.ctx.mir.body(name)
                nf = Frame(b, dcell, ret)
                for a, v in zip(b.args, argv): nf.env[a] = Cell(v)
                p.frames.append(nf)
                return [p]
        # uninterpreted
        allow = getattr(self, 'allow_uninterpreted', None)
        if allow is not None and not any(re.search(pat, callee) for pat in allow):
            raise Unsupported('call of %s is neither inlined nor modelled nor on the uninterpreted allow-list' % callee)
        rty = fr.body.types.get(dst, '?') if dst and re.match(r'_\d+$', dst) else '?'
        dcell.v = self.ctx.fresh(rty, callee.split('::')[-1])
        p.events.append((callee, argv, dcell.v))
        fr.bb = ret
        return [p]
    def resolve(self, callee):
        last = re.sub(r'<[^<>]*>', '', re.sub(r'<[^<>]*>', '', callee)).split('::')[-1]
        c = [n for n in self.ctx.mir.index if n.endswith('::' + last) and 'promoted' not in n]
        if len(c) > 1:
            tm = re.match(r'<&?(?:mut )?([\w:]+)(?:<.*>)? as ', callee)
            if tm:
                ty = tm.group(1).split('::')[-1]
                c2 = [n for n in c if re.search(r'\(_1: &(?:mut )?(?:[\w:]+::)?%s[,)<]' % re.escape(ty), self.ctx.mir.lines[self.ctx.mir.index[n]])]
                if len(c2) == 1: c = c2
        if len(c) != 1: raise Unsupported('resolve %s -> %s' % (callee, c))
        return c[0]

def split_head(s):
    d = 0
    for i, ch in enumerate(s):
        if ch == '<': d += 1
        elif ch == '>' and s[i-1] != '-': d -= 1
        elif ch == '(' and d == 0:
            return (s[:i], s[i+1:-1]) if s.endswith(')') else (s, None)
        elif ch in ' {[' and d == 0:
            return s, None
    return s, None

def strip_generics(s):
    out, d = '', 0
    for i, ch in enumerate(s):
        if ch == '<': d += 1
        elif ch == '>' and s[i-1] != '-': d -= 1
        elif d == 0: out += ch
    return out.replace('::::', '::')

def balanced(s):
    d = 0
    for ch in s:
        if ch == '(': d += 1
        if ch == ')':
            d -= 1
            if d < 0: return False
    return d == 0

# ----------------------------------------------------------------------------- generic models
def m_goto(interp, p, fr, ret): fr.bb = ret; return [p]

def model_unwrap(interp, p, fr, callee, argv, dcell, ret):
    a = argv[0]
    if not isinstance(a, Adt): return None
    okv = 'Some' if a.name == 'Option' else 'Ok'
    idx = ENUMS[a.name].index(okv)
    depth = len(p.frames)
    if isinstance(a.discr, int):
        if a.discr != idx: raise Panic('unwrap on ' + a.name)
        dcell.v = a.fields[(okv, 0)].v; fr.bb = ret; return [p]
    def bad(q): interp.results.append(('panic', q, 'unwrap on None/Err')); return None
    okc = a.discr == z3.BitVecVal(idx, a.discr.size())
    tm = re.match(r'(?:Option|Result)::<(.+?)(?:, [\w:]+)?>::unwrap$', callee)
    val_cell = a.field(okv, 0, tm.group(1) if tm else '?', interp.ctx)
    def good(q):
        f = q.frames[depth - 1]; f.bb = ret
        return True
    dcell.v = val_cell.v
    if interp.ctx and 'assume_some' in interp.__dict__ and interp.assume_some:
        p.pc.append(okc); fr.bb = ret; return [p]
    return interp.fork(p, [(z3.Not(okc), bad), (okc, good)])

def model_unwrap_or(interp, p, fr, callee, argv, dcell, ret):
    a, dflt = argv[0], argv[1]
    if not isinstance(a, Adt) or a.name != 'Option': return None
    idx = ENUMS['Option'].index('Some')
    if isinstance(a.discr, int):
        dcell.v = a.fields[('Some', 0)].v if a.discr == idx else dflt; fr.bb = ret; return [p]
    tm = re.match(r'Option::<(.+)>::unwrap_or$', callee)
    val = a.field('Some', 0, tm.group(1) if tm else '?', interp.ctx).v
    if not (z3.is_bv(val) and z3.is_bv(dflt)): return None
    dcell.v = z3.If(a.discr == z3.BitVecVal(idx, a.discr.size()), val, dflt); fr.bb = ret; return [p]

def model_eq_enum(interp, p, fr, callee, argv, dcell, ret):
    a, b = argv[0].cell.v, argv[1].cell.v
    if isinstance(a, Lazy) or isinstance(b, Lazy): return None
    if not (isinstance(a, Adt) and isinstance(b, Adt)): return None
    da = a.discr if not isinstance(a.discr, int) else z3.BitVecVal(a.discr, 8)
    db = b.discr if not isinstance(b.discr, int) else z3.BitVecVal(b.discr, 8)
    e = da == db
    # payload-carrying variants compared on their first payload field when both have it (ROM(n)/MemoryOnChip(n))
    ne = callee.endswith('::ne')
    dcell.v = z3.Not(e) if ne else e
    fr.bb = ret; return [p]

def model_try_branch(interp, p, fr, callee, argv, dcell, ret):
    a = argv[0]
    if not isinstance(a, Adt) or a.name != 'Result': return None
    depth = len(p.frames)
    def mk(isok):
        def cb(q):
            f = q.frames[depth - 1]
            # re-evaluate in the (possibly copied) path: find the same cell by re-reading dst is not possible -> use stored refs
            return True
        return cb
    if isinstance(a.discr, int):
        cf = Adt('ControlFlow', 0 if a.discr == 0 else 1)
        if a.discr == 0: cf.fields[('Continue', 0)] = a.fields.get(('Ok', 0), Cell(Opaque('unit')))
        else: cf.fields[('Break', 0)] = Cell(a)
        dcell.v = cf; fr.bb = ret; return [p]
    # symbolic Ok/Err: keep discriminant symbolic, share payload cells
    cf = Adt('ControlFlow', a.discr)
    tm = re.match(r'<Result<(.*), [\w:]+> as Try>::branch', callee)
    cf.fields[('Continue', 0)] = a.field('Ok', 0, tm.group(1) if tm else 'bool', interp.ctx)
    cf.fields[('Break', 0)] = Cell(a)
    dcell.v = cf; fr.bb = ret; return [p]

def model_from_residual(interp, p, fr, callee, argv, dcell, ret):
    dcell.v = Adt('Result', 1); fr.bb = ret; return [p]

def model_string_ident(interp, p, fr, callee, argv, dcell, ret):
    dcell.v = argv[0]; fr.bb = ret; return [p]

def model_deref_string(interp, p, fr, callee, argv, dcell, ret):
    a = argv[0]
    dcell.v = a.cell.v if isinstance(a, Ref) else a
    fr.bb = ret; return [p]

def model_format(interp, p, fr, callee, argv, dcell, ret):
    dcell.v = Str([('fmt', argv[0])]); fr.bb = ret; return [p]

def model_args_new(interp, p, fr, callee, argv, dcell, ret):
    tpl = argv[0].payload if isinstance(argv[0], Opaque) else None
    arr = argv[1].cell.v if isinstance(argv[1], Ref) else argv[1]
    vals = [arr.fields[k].v for k in sorted(arr.fields)] if isinstance(arr, Adt) else []
    dcell.v = Opaque('fmtargs', (tpl, vals)); fr.bb = ret; return [p]

def model_new_display(interp, p, fr, callee, argv, dcell, ret):
    a = argv[0]
    while isinstance(a, Ref): a = a.cell.v
    dcell.v = a; fr.bb = ret; return [p]

def model_int_ref_op(interp, p, fr, callee, argv, dcell, ret):
    a, b = argv
    while isinstance(a, Ref): a = a.cell.v
    op = re.search(r'as (\w+)<', callee).group(1)
    dcell.v = interp.binop({'Add': 'Add', 'Shr': 'Shr', 'BitAnd': 'BitAnd', 'Sub': 'Sub'}[op], [a, b], True)
    fr.bb = ret; return [p]

def model_str_eq(interp, p, fr, callee, argv, dcell, ret):
    a, b = argv
    while isinstance(a, Ref): a = a.cell.v
    while isinstance(b, Ref): b = b.cell.v
    if isinstance(a, Str) and isinstance(b, Str) and all(isinstance(x, str) for x in a.parts + b.parts):
        dcell.v = z3.BoolVal(''.join(a.parts) == ''.join(b.parts)); fr.bb = ret; return [p]
    # symbolic scheme string compared with a constant: uninterpreted predicate keyed by the constant
    key = ''.join(b.parts) if isinstance(b, Str) else ''.join(a.parts) if isinstance(a, Str) else '?'
    other = a if isinstance(b, Str) else b
    tag = getattr(other, 'payload', None) or 'str'
    dcell.v = z3.Bool('streq[%s==%s]' % (tag, key)); fr.bb = ret; return [p]

GENERIC = {
    r'(Option|Result)::<.*>::unwrap$': model_unwrap,
    r'Option::<.*>::unwrap_or$': model_unwrap_or,
    r'as PartialEq>::(eq|ne)$': lambda *a: (model_str_eq(*a) if ('str' in a[3]) else model_eq_enum(*a)),
    r'as Try>::branch$': model_try_branch,
    r'as FromResidual<.*>>::from_residual$': model_from_residual,
    r'as ToString>::to_string$': model_string_ident,
    r'as Into<std::string::String>>::into$': model_string_ident,
    r'as Deref>::deref$': model_deref_string,
    r'^std::fmt::format$': model_format,
    r'^must_use::': model_string_ident,
    r'^Arguments::<.*>::new::': model_args_new,
    r'Argument::<.*>::new_display': model_new_display,
    r'^<&i32 as (Add|Shr|BitAnd|Sub)<i32>>::': model_int_ref_op,
}

def model_get_variable_dummy(interp, p, fr, callee, argv, dcell, ret):
    name = argv[1]
    while isinstance(name, Ref): name = name.cell.v
    if isinstance(name, Str) and name.parts == ['DUMMY']:
        v = Adt('Variable', None)
        F = STRUCTS['Variable']
        v.fields[('', F.index('var_type'))] = Cell(Adt('VariableType', ENUMS['VariableType'].index('Char')))
        v.fields[('', F.index('var_const'))] = Cell(z3.BoolVal(True))
        v.fields[('', F.index('signed'))] = Cell(z3.BoolVal(False))
        v.fields[('', F.index('memory'))] = Cell(Adt('VariableMemory', ENUMS['VariableMemory'].index('Zeropage')))
        v.fields[('', F.index('size'))] = Cell(z3.BitVecVal(1, 64))
        dcell.v = Ref(Cell(v)); fr.bb = ret; return [p]
    return None


"""C04 Reported function size equals the assembled size.
(i) every AsmInstruction construction site is found in the MIR; (ii) GeneratorState::asm executed from MIR for every mnemonic x
operand kind x variable shape x scheme with symbolic integers: the nb_bytes it assigns equals the data-sheet size of the
addressing mode its operand text denotes; append_code / asm_save_y / asm_restore_y from MIR; check_branches' constants are
covered by C03; (iii) Kani: size_bytes() is the sum of the line sizes; (iv) E-TV corpus: reported size == assembled size."""
import os, re, sys, time, itertools, collections, multiprocessing, subprocess, shutil, json
import common, runner, families, families2

EXPECTED_SITES = {'asm', 'asm_save_y', 'asm_restore_y', 'check_branches', 'append_code', 'clone'}


def scan_sites(mir, rep, st):
    sites = collections.Counter()
    cur = None
    for l in mir.lines:
        if l.startswith('fn '):
            m = re.match(r'fn (.*?)\(', l); cur = m.group(1) if m else l
        elif 'AsmInstruction {' in l and '= AsmInstruction {' in l:
            sites[cur.split('::')[-1]] += 1
    st['construction_sites'] = dict(sites)
    extra = set(sites) - EXPECTED_SITES
    if extra: rep.inconc('new AsmInstruction construction site(s) %s: the size obligations are incomplete' % sorted(extra))
    return sites


# ----------------------------------------------------------------------------- (ii) asm() jobs
def expected(mn, text, zp):
    """-> ('ok', size) | ('illegal', why) from the 6502 data sheet"""
    from sym6502 import MODES, MODE_SIZE, IMPLIED, BRANCHES
    if text == '':
        if mn in IMPLIED: return ('ok', 1)
        if mn in MODES and 'acc' in MODES[mn]: return ('ok', 1)
        return ('illegal', 'no implied/accumulator form')
    if mn in BRANCHES: return ('ok', 2) if not text.startswith('#') and ',' not in text else ('illegal', 'branch operand')
    if mn not in MODES: return ('illegal', 'mnemonic takes no operand')
    if text.startswith('#'): return ('ok', 2) if 'imm' in MODES[mn] else ('illegal', 'no immediate form')
    if text.startswith('(') and text.endswith('),Y'): return ('ok', 2) if 'izy' in MODES[mn] and zp else ('illegal', 'no (zp),Y form')
    if text.endswith(',X'): cand = ('zpx', 'abx')
    elif text.endswith(',Y'): cand = ('zpy', 'aby')
    else: cand = ('zp', 'abs')
    if zp and cand[0] in MODES[mn]: return ('ok', MODE_SIZE[cand[0]])
    if cand[1] in MODES[mn]: return ('ok', MODE_SIZE[cand[1]])
    return ('illegal', 'addressing mode %s not available' % '/'.join(cand))


def configs():
    from engine import ENUMS
    mns = ENUMS['AsmMnemonic']
    for mn, hb in itertools.product(mns, (False, True)):
        for kind in ('Nothing', 'Label', 'Immediate', 'Tmp', 'A'):
            yield dict(mn=mn, kind=kind, hb=hb, var=None, scheme='4K')
        for kind, eb in (('Absolute', True), ('Absolute', False), ('AbsoluteX', None), ('AbsoluteY', None)):
            for vt, const in itertools.product(('Char', 'Short', 'CharPtr', 'CharPtrPtr', 'ShortPtr'), (False, True)):
                for mem, sch in (('Zeropage', '4K'), ('Superchip', '4K'), ('ROM', '4K'), ('Ramchip', '4K'), ('MemoryOnChip', '4K'), ('MemoryOnChip', '3E'), ('MemoryOnChip', '3EP')):
                    yield dict(mn=mn, kind=kind, eb=eb, hb=hb, var=(vt, mem, const), scheme=sch)


_MIR = None
def _job(chunk):
    global _MIR
    import z3
    from asm_model import load, run_asm, variable, operand, s_text, S, STRUCTS, ENUMS, Ctx, Unsupported
    if _MIR is None:
        _MIR = load('on')
    mir = _MIR
    fn = [n for n in mir.index if n.endswith('>::asm') and 'generate_asm' in n][0]
    out = []
    for cfg in chunk:
        r = dict(cfg=cfg, paths=0, queries=0, ok=0, err=0, viol=[], illegal=[], panics=[], unsupported=None)
        try:
            var = variable(None, *cfg['var']) if cfg['var'] else None
            op = operand(cfg['kind'], eight_bits=cfg.get('eb') if cfg.get('eb') is not None else True)
            ctx, res = run_asm(mir, fn, cfg['mn'], op, var=var, scheme=cfg['scheme'], high_byte=cfg['hb'], budget_s=60)
        except Unsupported as e:
            r['unsupported'] = str(e)[:200]; out.append(r); continue
        r['paths'] = len(res); r['queries'] = ctx.nq
        F = STRUCTS['AsmInstruction']
        for x in res:
            kind, p = x[0], x[1]
            if kind == 'panic': r['panics'].append(str(x[2])[:120]); continue
            if kind != 'return': r['unsupported'] = 'bound hit'; continue
            ev = [e for e in p.events if e[0].endswith('append_asm')]
            if not ev:
                r['err' if any(e[0].endswith('syntax_error') for e in p.events) else 'ok'] += 1; continue
            ins = S(ev[0][1][1])
            g = lambda n: ins.fields[('', F.index(n))].v
            mn = ENUMS['AsmMnemonic'][g('mnemonic').discr]; text = s_text(g('dasm_operand')); nb = g('nb_bytes')
            zp = (cfg['var'] is None) or cfg['var'][1] == 'Zeropage'
            if text == 'cctmp': zp = True
            e = expected(mn, text.replace('{}', '1'), zp)
            flow = mn in ('BEQ', 'BNE', 'BCC', 'BCS', 'BMI', 'BPL', 'JMP', 'JSR')
            if flow != (cfg['kind'] == 'Label') and text != '':
                e = ('illegal', 'control-flow mnemonic with a data operand / data mnemonic with a label')
            if e[0] == 'illegal':
                r['illegal'].append('%s %s: %s' % (mn, text, e[1])); continue
            s = z3.Solver(); s.add(*ctx.constraints); s.add(*p.pc); s.add(nb != z3.BitVecVal(e[1], 32)); r['queries'] += 1
            if s.check() == z3.sat:
                m = s.model()
                r['viol'].append(dict(mn=mn, operand=text, reported=m.eval(nb, model_completion=True).as_long(), real=e[1], zero_page=zp,
                                      model={str(d): str(m[d]) for d in m.decls()}))
            else: r['ok'] += 1
        out.append(r)
    return out


def check_asm(rep, tier, st, corpus_index):
    cfgs = list(configs())
    chunks = [cfgs[i::64] for i in range(64)]
    ctx = multiprocessing.get_context('fork')
    t0 = time.time()
    with ctx.Pool(common.NCPU) as pool:
        results = [r for ch in pool.imap_unordered(_job, chunks) for r in ch]
    st['asm_wall_s'] = round(time.time() - t0, 1)
    isolated = collections.Counter()
    for r in results:
        st['asm_configs'] += 1; st['asm_paths'] += r['paths']; st['queries'] += r['queries']; st['obligations'] += r['ok'] + len(r['viol']); st['discharged'] += r['ok']
        st['asm_rejecting_paths'] += r['err']
        if r['unsupported']: rep.inconc('asm() configuration %s: %s' % (r['cfg'], r['unsupported']))
        for i in r['illegal']: isolated['illegal pair passed through: ' + i.split(':')[0].split(' ')[0] + ' ' + re.sub(r'\w+', 'v', i.split(':')[0].split(' ', 1)[1] if ' ' in i.split(':')[0] else '')] += 1
        for pn in r['panics']: isolated['panic: ' + pn[:60]] += 1
        for v in r['viol']:
            # confirmation through the public API: an instruction of this shape in the compiled corpus whose function size is wrong
            pat = (v['mn'], re.sub(r'[A-Za-z_]\w*', 'v', v['operand'].replace('{}', '1')))
            hit = corpus_index.get(pat)
            key = 'asm.size.%s.%s.%s' % (v['mn'], pat[1], 'zp' if v['zero_page'] else 'abs')
            if hit:
                rep.violation(key, 'asm() gives `%s %s` (%s) nb_bytes=%d, a 6502 assembler produces %d bytes; confirmed on program %s: size_bytes()=%d, assembled=%d' % (
                    v['mn'], v['operand'], 'zero page' if v['zero_page'] else 'absolute', v['reported'], v['real'], hit['pid'], hit['reported'], hit['real']),
                    dict(kind='mir-asm', config=r['cfg'], model=v['model'], source=hit['src'], args=hit['args'], function=hit['fn']))
            else:
                st['unconfirmed_isolated'].append('asm(%s, %s) -> `%s %s` nb_bytes=%d, data sheet %d (no program of the corpus emits this instruction with a wrong function size)' % (
                    r['cfg']['mn'], r['cfg']['kind'], v['mn'], v['operand'], v['reported'], v['real']))
    st['isolated'] = dict(isolated.most_common(12))
    if len(st['samples']) < 3:
        st['samples'].append(dict(function='GeneratorState::asm', configurations=len(cfgs), example=dict(mn='STA', operand='AbsoluteY', variable=('ShortPtr', 'Zeropage', True)),
                                  verdict='nb_bytes == 3 (abs,Y: no zp,Y form for STA) for all offsets/sizes (unsat)'))


# ----------------------------------------------------------------------------- small sites
def check_small_sites(rep, mir, st):
    import z3
    from asm_model import Interp, Ctx, ASM_MODELS, Adt, Cell, Ref, S, STRUCTS, ENUMS, s_text, opt, Str, Opaque, Unsupported
    import check_c03 as c3
    F = STRUCTS['AsmInstruction']
    # asm_save_y / asm_restore_y
    for name, via in (('asm_save_y', 'AssemblyCode::set'), ('asm_restore_y', 'AssemblyCode::append_asm')):
        fn = [n for n in mir.index if n.endswith('>::' + name)][0]
        ctx = Ctx(mir); it = Interp(ctx, inline=[], models=ASM_MODELS); it.assume_some = False
        gs = Adt('GeneratorState', None); G = STRUCTS['GeneratorState']
        gs.fields[('', G.index('current_function'))] = Cell(opt(Str(['fn']))); gs.fields[('', G.index('functions_code'))] = Cell(Opaque('functions_code'))
        args = [Ref(Cell(gs))] + ([z3.BitVec('line', 64)] if name == 'asm_save_y' else [])
        try:
            res = it.run(fn, args, max_steps=500, budget_s=30)
        except Unsupported as e:
            rep.inconc('%s: %s' % (name, e)); continue
        for x in res:
            ev = [e for e in x[1].events if e[0].endswith(via.split('::')[-1])]
            st['obligations'] += 1
            if x[0] != 'return' or not ev: rep.inconc('%s: unexpected path %s' % (name, x[0])); continue
            ins = S(ev[0][1][-1]); g = lambda n: ins.fields[('', F.index(n))].v
            mn = ENUMS['AsmMnemonic'][g('mnemonic').discr]; text = s_text(g('dasm_operand')); nb = z3.simplify(g('nb_bytes')).as_long()
            e = expected(mn, text, True)
            if e == ('ok', nb): st['discharged'] += 1
            else: rep.violation('site.%s' % name, '%s creates `%s %s` with nb_bytes=%d, data sheet: %s' % (name, mn, text, nb, e), dict(kind='mir-asm-site', site=name))
    # append_code: the copy made for inlining keeps the size of every line (symbolic sizes)
    fn = [n for n in mir.index if n.endswith('>::append_code')][0]
    models = dict(c3.MODELS)
    def m_into_iter(i, p, fr, c, a, d, r): return c3.ret(p, fr, d, r, Opaque('sliceiter', [S(a[0]), 0]))
    models[r'<&Vec<AsmLine> as IntoIterator>::into_iter$'] = m_into_iter
    models[r'<(AsmMnemonic|Option<u32>|u32|bool|std::string::String) as Clone>::clone$'] = c3.m_clone
    ctx = Ctx(mir); it = Interp(ctx, inline=[r'<AsmLine as Clone>::clone$', r'<AsmInstruction as Clone>::clone$', r'assemble::<impl.*>::clone$', r'AssemblyCode::append_(label|asm|inline|comment|dummy)$'], models=models); it.assume_some = False
    it.allow_uninterpreted = [r'^log::', r'max_level', r'fmt::rt::Argument', r'^Arguments::']
    sizes = [z3.BitVec('n%d' % k, 32) for k in range(8)]
    src_lines = [c3.label('.l'), c3.inst('LDA', 'v', sizes[0]), c3.inst('BEQ', '.l', sizes[1]), c3.inst('JMP', '.l', sizes[2]), c3.inline('x', sizes[3]), c3.inst('BMI', '.l', sizes[4]),
                 c3.simple('Dummy'), c3.inst('STA', 'w', sizes[5]), c3.inst('BCC', '.l', sizes[6]), c3.inst('JSR', 'f', sizes[7])]
    src = Adt('AssemblyCode', None); src.fields[('', 0)] = Cell(c3.VecC([Cell(l) for l in src_lines]))
    dst = Adt('AssemblyCode', None); dst.fields[('', 0)] = Cell(c3.VecC([]))
    try:
        res = it.run(fn, [Ref(Cell(dst)), Ref(Cell(src)), z3.BitVecVal(7, 32)], max_steps=4000, budget_s=60)
        for x in res:
            st['obligations'] += 1
            if x[0] != 'return': rep.inconc('append_code: %s path %s' % (x[0], x[2] if len(x) > 2 else '')); continue
            fr = x[1].frames  # frames are popped at return; the destination vector lives in the path copy of arg 1
            out = None
            for c in getattr(x[1], 'arg_cells', []): pass
            out = c3.decode(x[1].final_vec) if hasattr(x[1], 'final_vec') else None
            if out is None: rep.inconc('append_code: result vector not found'); continue
            want = [s for s, l in zip([None, sizes[0], sizes[1], sizes[2], sizes[3], sizes[4], None, sizes[5], sizes[6], sizes[7]], src_lines) if s is not None]
            got = [o[-1] for o in out if o[0] in ('B', 'J', 'F')]
            s = z3.Solver(); s.add(*ctx.constraints); s.add(*x[1].pc)
            bad = len(want) != len(got) or s.check(z3.Or(*[a != b for a, b in zip(want, got)])) == z3.sat
            st['queries'] += 1
            if not bad: st['discharged'] += 1
            else:
                idx = [k for k, (a, b) in enumerate(zip(want, got)) if not z3.is_true(z3.simplify(a == b))]
                rep.violation('site.append_code', 'append_code (inline expansion) does not keep the size of copied line(s) %s: %s' % (idx, [str(z3.simplify(got[k])) for k in idx]),
                              dict(kind='mir-asm-site', site='append_code', lines=c3.final_text(out)))
    except Unsupported as e:
        rep.inconc('append_code: %s' % e)


# ----------------------------------------------------------------------------- (iii) Kani
def check_kani(rep, tier, st):
    src = os.path.join(common.VERIF, 'kani', 'size')
    d = src
    if common.REPO != '/repo':
        d = os.path.join(common.REPO, '.verif_kani')
        shutil.rmtree(d, ignore_errors=True); shutil.copytree(src, d, ignore=shutil.ignore_patterns('target'))
        t = open(os.path.join(d, 'Cargo.toml')).read().replace('path = "/repo"', 'path = "%s"' % common.REPO); open(os.path.join(d, 'Cargo.toml'), 'w').write(t)
    shutil.copy(os.path.join(common.REPO, 'Cargo.lock'), os.path.join(d, 'Cargo.lock'))
    harness = 'size_bytes_is_sum_of_2_lines' if tier == 'quick' else 'size_bytes_is_sum_of_4_lines'
    t0 = time.time()
    try:
        p = subprocess.run('ulimit -v 12000000; exec timeout 1500 cargo kani --harness %s --output-format terse' % harness, shell=True, cwd=d, env=common.ENV, capture_output=True, text=True)
    except Exception as e:
        rep.inconc('kani could not run: %r' % e); return
    out = p.stdout + p.stderr
    st['kani_wall_s'] = round(time.time() - t0, 1); st['kani_harness'] = harness
    st['obligations'] += 1
    if 'VERIFICATION:- SUCCESSFUL' in out and '1 of 1 cover properties satisfied' in out:
        st['discharged'] += 1; st['kani'] = 'SUCCESSFUL (reachability cover satisfied)'
    elif 'VERIFICATION:- FAILED' in out and 'Failed Checks' in out:
        fc = [l for l in out.split('\n') if 'Failed Checks' in l][:3]
        rep.violation('kani.size_bytes', 'Kani: AssemblyCode::size_bytes() is not the sum of the line sizes (%s)' % '; '.join(fc), dict(kind='kani', harness=harness, cmd='cd /verif/kani/size && cargo kani --harness %s -Z concrete-playback --concrete-playback=print' % harness, output=out[-2500:]))
    else:
        rep.inconc('kani did not decide: %s' % out[-400:])


# ----------------------------------------------------------------------------- (iv) corpus
def corpus(rep, tier, st):
    """reported size vs assembled size on compiled programs; returns index (mnemonic, operand shape) -> wrong-size witness"""
    from equiv import Session
    from sym6502 import AsmError, Unsupported as U2
    progs = [p for p in families.g_peep('quick') if p.pid.startswith(('peep/1/', 'peep/f/')) or families.stable_pick(p.pid, 100, 5 if tier == 'quick' else 50)]
    progs += [p for p in families2.all_core('quick') if families.stable_pick(p.pid, 100, 8 if tier == 'quick' else 100)]
    import families3
    progs += [p for p in families3.g_deep('quick') if families.stable_pick(p.pid, 100, 25 if tier == 'quick' else 100)]
    import check_c14, check_c03
    progs += check_c14.extra_programs()
    progs += g_modes()
    asmprogs = g_asm()
    progs += g_hwconst()
    big = [p for p in check_c03.big_programs('quick') if families.stable_pick(p.pid, 100, 12 if tier == 'quick' else 60)]
    reqs = []
    for p in progs:
        if any(k in p.c() for k in ('asm(',)): continue
        reqs.append((p.pid + '@O1', ['-O1'], p.c())); reqs.append((p.pid + '@O0', ['-O0'], p.c()))
        cands = [n for t, n in p.globs if t != 'ptr']
        if cands and families.stable_pick(p.pid, 100, 30):
            import copy as _c
            q = _c.copy(p); q.quals = {n: 'superchip' for n in cands}
            reqs.append((p.pid + '@super', ['-O1'], q.c()))
        if p.funcs and families.stable_pick(p.pid, 100, 100):
            import copy as _c
            q = _c.deepcopy(p)
            for f in q.funcs: f.inline = True
            reqs.append((p.pid + '@inline', ['-O1'], q.c()))
    for p in big:
        reqs.append((p.pid + '@O1', ['-O1'], p.big()))
    for p in asmprogs:
        reqs.append((p.pid + '@O1', ['-O1'], p.c())); reqs.append((p.pid + '@O0', ['-O0'], p.c()))
    R = common.compile_many(reqs)
    index = {}
    srcs = {i: (a, s) for i, a, s in reqs}
    for rid, c in R.items():
        if c.status != 'ok': continue
        try:
            v = Session().variant(c)
        except (AsmError, U2):
            continue
        st['corpus_programs'] += 1
        for f in v.prog.func_range:
            st['corpus_functions'] += 1
            rep_size, real = c.funcs[f]['size'], v.prog.func_size(f)
            if rep_size != real:
                st['corpus_mismatches'] += 1
                a, s = srcs[rid]
                w = dict(pid=rid, src=s, args=a, fn=f, reported=rep_size, real=real)
                lo, hi = v.prog.func_range[f]
                for ins in v.prog.code[lo:hi - 1]:
                    t = ins.raw.strip().split(None, 1)
                    index.setdefault((t[0], re.sub(r'[A-Za-z_.]\w*', 'v', re.sub(r'\d+', '1', t[1] if len(t) > 1 else ''))), w)
                rep.violation('corpus.size:%s#%s' % (rid, runner.code_hash(c)), '%s: size_bytes() of %s = %d but the emitted instructions assemble to %d bytes' % (rid, f, rep_size, real),
                              dict(kind='tv-size', source=s, args=a, function=f, code=c.funcs[f]['lines']))
    return index


def g_modes():
    """every addressing form the generator can select x variable kinds (zero page and, through the superchip variant, absolute)"""
    from cast import Index, ExprS, Inc, Deref
    from families import V, C, A, B, mkprog
    P = []
    idx = [('X', lambda: V('X')), ('Y', lambda: V('Y')), ('k1', lambda: C(1))]
    arrays = ['arr', 'sarr', 'warr']
    for an, (inn, ix) in itertools.product(arrays, idx):
        el = lambda: Index(an, ix())
        dst = 'wa' if an == 'warr' else 'va'
        P.append(mkprog('modes/ld/%s/%s' % (an, inn), [A(V(dst), el())]))
        P.append(mkprog('modes/st/%s/%s' % (an, inn), [A(el(), V(dst))]))
        P.append(mkprog('modes/add/%s/%s' % (an, inn), [A(V(dst), B('+', V(dst), el()))]))
        P.append(mkprog('modes/cass/%s/%s' % (an, inn), [A(el(), V(dst), '+=')]))
        P.append(mkprog('modes/inc/%s/%s' % (an, inn), [ExprS(Inc('++', False, el()))]))
        P.append(mkprog('modes/cmp/%s/%s' % (an, inn), [If_(B('<', el(), V(dst)))]))
        P.append(mkprog('modes/ldx/%s/%s' % (an, inn), [A(V('X' if inn != 'X' else 'Y'), el())]))
        P.append(mkprog('modes/stx/%s/%s' % (an, inn), [A(el(), V('X' if inn != 'X' else 'Y'))]))
        P.append(mkprog('modes/shift/%s/%s' % (an, inn), [A(el(), C(1), '<<=')]))
    for inn, ix in idx[1:2]:
        P.append(mkprog('modes/ptr/ld', [A(V('va'), Index('pp', ix()))])); P.append(mkprog('modes/ptr/st', [A(Index('pp', ix()), V('va'))]))
        P.append(mkprog('modes/ptr/add', [A(V('va'), B('+', V('va'), Index('pp', ix())))])); P.append(mkprog('modes/ptr/cmp', [If_(B('==', Index('pp', ix()), V('va')))]))
    P.append(mkprog('modes/deref', [A(V('va'), Deref('pp')), A(Deref('pp'), V('vb'))]))
    P.append(mkprog('modes/ptrset', [A(V('pp'), V('arr')), A(V('pq'), V('pp')), ExprS(Inc('++', False, V('pp')))]))
    return P


def g_asm():
    """asm() statements whose declared size is the data-sheet size of their text, in ordinary functions, in inline functions
    (copied by append_code), nested inline functions, and inside branch bodies"""
    from cast import ExprS, Inc, Raw, If, Block, Func, Call
    from families import V, C, A, B, mkprog
    ASM = [('nop', 'NOP', 1), ('imm', 'LDA #1', 2), ('zp', 'STA va', 2), ('zpx', 'LDA arr,X', 2), ('abs', 'STA $1234', 3), ('absdef', 'STA $1234', None), ('inx', 'INX', 1), ('aby', 'LDA $1234,Y', 3)]
    P = []; EG = ('va', 'arr')
    for (n1, t1, s1), (n2, t2, s2) in itertools.product(ASM, ASM):
        if n1 > n2: continue
        a = lambda: [Raw('asm', t1, s1), ExprS(Inc('++', False, V('vb'))), Raw('asm', t2, s2)]
        P.append(mkprog('asm/plain/%s+%s' % (n1, n2), a(), extra_globals=EG))
        leaf = Func('leaf', None, [], Block(a()), inline=True)
        P.append(mkprog('asm/inl/%s+%s' % (n1, n2), [ExprS(Call('leaf', [])), A(V('vc'), C(1)), ExprS(Call('leaf', []))], funcs=[leaf], extra_globals=EG))
        mid = Func('mid', None, [], Block([ExprS(Call('leaf', [])), ExprS(Inc('++', False, V('vc'))), ExprS(Call('leaf', []))]), inline=True)
        P.append(mkprog('asm/nest/%s+%s' % (n1, n2), [ExprS(Call('mid', []))], funcs=[leaf, mid], extra_globals=EG))
        P.append(mkprog('asm/if/%s+%s' % (n1, n2), [If(B('==', V('va'), C(3)), Block([ExprS(Call('leaf', []))] * 3)), A(V('vc'), C(2))], funcs=[leaf], extra_globals=EG))
        plain = Func('sub', None, [], Block(a()))
        P.append(mkprog('asm/call/%s+%s' % (n1, n2), [ExprS(Call('sub', [])), A(V('vc'), C(2))], funcs=[plain], extra_globals=EG))
    return P


def g_hwconst():
    """address constants (hardware registers) below and above $100, declared globally and inside a function, in both spellings:
    the operand is zero page or absolute according to the ADDRESS, wherever the constant is declared"""
    from cast import ExprS, Inc, Raw, If, Block, Func, Call, Deref, Index
    from families import V, C, A, B, mkprog
    P = []
    for kind, addr in itertools.product(('kptr', 'ptrk'), (0x3c, 0xfd, 0x100, 0x101, 0x282, 0x1fff)):
        uses = lambda n: [A(V('va'), Deref(n)), A(V('vb'), Index(n, V('X'))), A(V('vc'), Index(n, V('Y'))), A(V('vd'), B('+', V('va'), Deref(n))), If(B('==', Deref(n), C(3)), A(V('va'), C(1))),
                          Raw('load', Deref(n)), A(V('va'), Index(n, C(2)))] + ([A(Deref(n), V('va')), A(Index(n, V('X')), V('vb')), Raw('store', Deref(n)), A(Index(n, V('X')), V('Y')), A(Index(n, V('Y')), V('X')),
                                                                       A(Deref(n), V('X')), A(Deref(n), V('Y'))] if kind == 'ptrk' else []) + [A(V('X'), Index(n, V('Y'))), A(V('Y'), Index(n, V('X'))), A(V('X'), Deref(n))]
        P.append(mkprog('hwconst/local/%s/%x' % (kind, addr), [ExprS(Call('poll', []))], funcs=[Func('poll', None, [], Block(uses('LR'), decls=[(kind, 'LR', C(addr))]))]))
        P.append(mkprog('hwconst/local-inline/%s/%x' % (kind, addr), [ExprS(Call('poll', [])), ExprS(Call('poll', []))], funcs=[Func('poll', None, [], Block(uses('LR'), decls=[(kind, 'LR', C(addr))]), inline=True)]))
        pre = ('const unsigned char *GR = 0x%x;\n' if kind == 'kptr' else 'unsigned char * const GR = 0x%x;\n') % addr
        P.append(mkprog('hwconst/global/%s/%x' % (kind, addr), uses('GR'), pre=pre))
        P.append(mkprog('hwconst/global-in-func/%s/%x' % (kind, addr), [ExprS(Call('poll', []))], funcs=[Func('poll', None, [], Block(uses('GR')))], pre=pre))
        if kind == 'ptrk':
            for other in (0x04, 0x280):
                pre2 = 'unsigned char * const G2 = 0x%x, * const GR = 0x%x, * const G3 = 0x%x;\n' % (other, addr, 0x2ff - other)
                P.append(mkprog('hwconst/multi-decl/%x/%x' % (other, addr), uses('GR') + [A(Deref('G2'), V('va')), A(V('vb'), Deref('G3')), Raw('strobe', V('G2'))], pre=pre2))
    return P


def If_(cond):
    from cast import If
    from families import V, C, A
    return If(cond, A(V('vc'), C(1)), A(V('vc'), C(2)))


def run(tier):
    rep = common.Report('C04', tier, 'other')
    common.build_driver()
    sys.path.insert(0, os.path.join(common.VERIF, 'mirsym'))
    from base import load
    st = collections.defaultdict(int); st['samples'] = []; st['unconfirmed_isolated'] = []
    mir = load('on')
    scan_sites(mir, rep, st)
    index = corpus(rep, tier, st)
    check_asm(rep, tier, st, index)
    check_small_sites(rep, mir, st)
    check_kani(rep, tier, st)
    rep.cov = dict(explanation='(i) MIR scan for AsmInstruction construction sites; (ii) GeneratorState::asm executed symbolically from the rustc MIR of the current tree for every mnemonic (45) x operand kind x '
                   'variable type x memory class x const-ness x scheme x high_byte, with offsets, immediates, sizes and banks symbolic: z3 decides nb_bytes == data-sheet size of the addressing mode denoted by the '
                   'operand text; append_code with symbolic line sizes, asm_save_y/asm_restore_y; (iii) Kani/CBMC over the public API: size_bytes() == sum of line sizes for every mix of line kinds; '
                   '(iv) reported vs independently assembled size on a compiled corpus (also used to confirm E-MIR counterexamples through the public API)',
                   obligations=st['obligations'], discharged=st['discharged'], evaluations=st['asm_paths'] + st['corpus_functions'], distinct_nontrivial=st['asm_configs'],
                   construction_sites=st['construction_sites'], asm_configurations=st['asm_configs'], asm_paths=st['asm_paths'], asm_rejecting_paths=st['asm_rejecting_paths'], asm_wall_s=st['asm_wall_s'],
                   queries=st['queries'], isolated_observations=st['isolated'], unconfirmed_isolated=st['unconfirmed_isolated'][:10], kani=st.get('kani'), kani_harness=st.get('kani_harness'), kani_wall_s=st.get('kani_wall_s'),
                   corpus_programs=st['corpus_programs'], corpus_functions=st['corpus_functions'], corpus_mismatches=st['corpus_mismatches'], samples=st['samples'],
                   bounds=dict(asm='loop-free, all integer arguments at full width', kani='<= %d lines, sizes <= 100000' % (2 if tier == 'quick' else 4), append_code='10 lines of every kind, symbolic sizes'),
                   trusted_base=['mirsym + models', 'z3', 'Kani 0.68 / CBMC 6.11', '6502 data-sheet table in tv/sym6502.py'])
    rep.assumptions = ['a zero-page variable plus offset stays in page zero (the external assembler decides otherwise beyond $FF)', 'inline assembly counts at its declared size (programs with asm() are not in the corpus)',
                       'illegal mnemonic/mode pairs passed through asm() are listed as isolated observations (C13 territory), not size obligations']
    return rep.finish()

"""My own C-subset AST: programs are generated from it (never parsed back), printed as C text for the real
compiler, and (refsem.py) evaluated into z3 terms as the reference meaning."""

# types: 'u8' 's8' 'u16' 's16'; arrays ('arr', elem, n); pointer 'ptr' (char *)
PREC = {'*': 13, '/': 13, '+': 12, '-': 12, '<<': 11, '>>': 11, '<': 10, '<=': 10, '>': 10, '>=': 10, '==': 9, '!=': 9,
        '&': 8, '^': 7, '|': 6, '&&': 5, '||': 4, '?': 3, '=': 2, ',': 1}


class E:
    prec = 16
    def c(self): raise NotImplementedError
    def par(self, p):
        s = self.c()
        return '(' + s + ')' if self.prec < p else s
    def kids(self): return []
    def walk(self):
        yield self
        for k in self.kids():
            yield from k.walk()


class Const(E):
    def __init__(self, n): self.n = n
    def c(self): return str(self.n)
    def par(self, p): return '(%d)' % self.n if self.n < 0 and p > 12 else str(self.n)


class Var(E):
    def __init__(self, name): self.name = name
    def c(self): return self.name


class Index(E):
    def __init__(self, arr, idx): self.arr, self.idx = arr, idx
    def c(self): return '%s[%s]' % (self.arr, self.idx.c())
    def kids(self): return [self.idx]


class Deref(E):
    prec = 14
    def __init__(self, p): self.p = p
    def c(self): return '*' + self.p


class Bin(E):
    def __init__(self, op, l, r, forcepar=False): self.op, self.l, self.r = op, l, r; self.prec = PREC[op]; self.forcepar = forcepar
    def c(self):
        # fully explicit grouping unless the generator asks for the bare form (precedence families)
        if self.forcepar: return '%s %s %s' % (self.l.par(self.prec), self.op, self.r.par(self.prec + 1))
        return '%s %s %s' % (self.l.par(15), self.op, self.r.par(15))
    def kids(self): return [self.l, self.r]


class Flat(E):
    """a op1 b op2 c printed without parentheses: grouping is decided by the language (C precedence)"""
    prec = 0
    def __init__(self, items): self.items = items     # [e0, op1, e1, op2, e2 ...]
    def c(self): return ' '.join(x if isinstance(x, str) else x.par(15) for x in self.items)
    def kids(self): return [x for x in self.items if not isinstance(x, str)]


class Un(E):
    prec = 14
    def __init__(self, op, e): self.op, self.e = op, e
    def c(self): return self.op + self.e.par(15)
    def kids(self): return [self.e]


class Assign(E):
    prec = 2
    def __init__(self, lv, op, e): self.lv, self.op, self.e = lv, op, e     # op '=' '+=' ...
    def c(self): return '%s %s %s' % (self.lv.c(), self.op, self.e.par(3))
    def kids(self): return [self.lv, self.e]


class Inc(E):
    prec = 14
    def __init__(self, op, prefix, lv): self.op, self.prefix, self.lv = op, prefix, lv
    def c(self): return (self.op + self.lv.c()) if self.prefix else (self.lv.c() + self.op)
    def kids(self): return [self.lv]


class Call(E):
    def __init__(self, f, args): self.f, self.args = f, args
    def c(self): return '%s(%s)' % (self.f, ', '.join(a.par(3) for a in self.args))
    def kids(self): return list(self.args)


class Tern(E):
    prec = 3
    def __init__(self, c_, a, b): self.cnd, self.a, self.b = c_, a, b
    def c(self): return '%s ? %s : %s' % (self.cnd.par(15), self.a.par(15), self.b.par(15))
    def kids(self): return [self.cnd, self.a, self.b]


class Comma(E):
    prec = 1
    def __init__(self, a, b): self.a, self.b = a, b
    def c(self): return '%s, %s' % (self.a.par(2), self.b.par(2))
    def kids(self): return [self.a, self.b]


# ---------------------------------------------------------------- statements
class S:
    def c(self, ind=1): raise NotImplementedError
    def kids(self): return []
    def exprs(self): return []


def _i(n): return '  ' * n


class ExprS(S):
    def __init__(self, e): self.e = e
    def c(self, ind=1): return _i(ind) + self.e.c() + ';\n'
    def exprs(self): return [self.e]


class Block(S):
    def __init__(self, stmts, decls=()): self.stmts, self.decls = list(stmts), list(decls)   # decls: (type, name, init Expr|None)
    def c(self, ind=1):
        s = _i(ind) + '{\n'
        for t, n, init in self.decls:
            s += _i(ind + 1) + ctype(t, n) + ((' = ' + init.c()) if init is not None else '') + ';\n'
        for x in self.stmts: s += x.c(ind + 1)
        return s + _i(ind) + '}\n'
    def kids(self): return self.stmts


class Empty(Block):
    """the empty statement `;`"""
    def __init__(self): Block.__init__(self, [])
    def c(self, ind=1): return _i(ind) + ';\n'


def body(s, ind, bare):
    """a controlled statement: braces always, unless the node asks for the bare form (`if (c) break;`, `while (c) ;`)"""
    return s.c(ind + 1) if bare and not (isinstance(s, Block) and not isinstance(s, Empty)) else blk(s).c(ind)


class If(S):
    def __init__(self, cnd, a, b=None, bare=False): self.cnd, self.a, self.b, self.bare = cnd, a, b, bare
    def c(self, ind=1):
        s = _i(ind) + 'if (%s)\n' % self.cnd.c() + body(self.a, ind, self.bare)
        if self.b is not None: s += _i(ind) + 'else\n' + body(self.b, ind, self.bare)
        return s
    def kids(self): return [self.a] + ([self.b] if self.b is not None else [])
    def exprs(self): return [self.cnd]


class While(S):
    def __init__(self, cnd, body, bare=False): self.cnd, self.body, self.bare = cnd, body, bare
    def c(self, ind=1): return _i(ind) + 'while (%s)\n' % self.cnd.c() + body(self.body, ind, self.bare)
    def kids(self): return [self.body]
    def exprs(self): return [self.cnd]


class DoWhile(S):
    def __init__(self, body, cnd, bare=False): self.cnd, self.body, self.bare = cnd, body, bare
    def c(self, ind=1): return _i(ind) + 'do\n' + body(self.body, ind, self.bare) + _i(ind) + 'while (%s);\n' % self.cnd.c()
    def kids(self): return [self.body]
    def exprs(self): return [self.cnd]


class For(S):
    def __init__(self, init, cnd, upd, body, bare=False): self.init, self.cnd, self.upd, self.body, self.bare = init, cnd, upd, body, bare
    def c(self, ind=1):
        f = lambda e: '' if e is None else e.c()
        return _i(ind) + 'for (%s; %s; %s)\n' % (f(self.init), f(self.cnd), f(self.upd)) + body(self.body, ind, self.bare)
    def kids(self): return [self.body]
    def exprs(self): return [e for e in (self.init, self.cnd, self.upd) if e is not None]


class Switch(S):
    def __init__(self, e, cases): self.e, self.cases = e, cases     # cases: [(value|None, [stmts])]
    def c(self, ind=1):
        s = _i(ind) + 'switch (%s) {\n' % self.e.c()
        for v, st in self.cases:
            s += _i(ind + 1) + ('default:\n' if v is None else 'case %d:\n' % v)
            for x in st: s += x.c(ind + 2)
        return s + _i(ind) + '}\n'
    def kids(self): return [x for _, st in self.cases for x in st]
    def exprs(self): return [self.e]


class Break(S):
    def c(self, ind=1): return _i(ind) + 'break;\n'


class Continue(S):
    def c(self, ind=1): return _i(ind) + 'continue;\n'


class Return(S):
    def __init__(self, e=None): self.e = e
    def c(self, ind=1): return _i(ind) + ('return %s;\n' % self.e.c() if self.e is not None else 'return;\n')
    def exprs(self): return [self.e] if self.e is not None else []


class Goto(S):
    def __init__(self, l): self.l = l
    def c(self, ind=1): return _i(ind) + 'goto %s;\n' % self.l


class Label(S):
    def __init__(self, l, st): self.l, self.st = l, st
    def c(self, ind=1): return _i(ind) + self.l + ':\n' + self.st.c(ind)
    def kids(self): return [self.st]


class Raw(S):
    """hardware-access statements: load(e) store(e) strobe(e) asm("..", n) csleep(n)"""
    def __init__(self, kind, arg, n=None): self.kind, self.arg, self.n = kind, arg, n
    def c(self, ind=1):
        if self.kind == 'asm':
            return _i(ind) + ('asm("%s"%s);\n' % (self.arg, '' if self.n is None else ', %d' % self.n))
        if self.kind == 'csleep': return _i(ind) + 'csleep(%d);\n' % self.arg
        return _i(ind) + '%s(%s);\n' % (self.kind, self.arg.c() if isinstance(self.arg, E) else self.arg)


def blk(s):
    return s if isinstance(s, Block) else Block([s])


def ctype(t, name):
    if isinstance(t, tuple) and t[0] == 'arr':
        return '%s %s[%d]' % (CT[t[1]], name, t[2])
    if t == 'ptr': return 'char *%s' % name
    if t == 'kptr': return 'const unsigned char *%s' % name          # address constant (a hardware register)
    if t == 'ptrk': return 'unsigned char * const %s' % name
    return '%s %s' % (CT[t], name)


CT = {'u8': 'unsigned char', 's8': 'signed char', 'u16': 'unsigned short', 's16': 'signed short',
      'pc8': 'char', 'pi16': 'int', 'ps16': 'short'}          # spelling-only codes: the default signedness applies


class Func:
    def __init__(self, name, ret, params, body, inline=False):
        self.name, self.ret, self.params, self.body, self.inline = name, ret, params, body, inline   # params [(type,name)]
    def c(self):
        r = 'void' if self.ret is None else CT[self.ret]
        ps = ', '.join(ctype(t, n) for t, n in self.params)
        return '%s%s %s(%s)\n%s' % ('inline ' if self.inline else '', r, self.name, ps, self.body.c(0))


class Prog:
    def __init__(self, pid, globs, funcs, main, quals=None, pre=''):
        """globs: [(type, name)] ; funcs: [Func] ; main: Block ; quals: {name: 'superchip'...}"""
        self.pid, self.globs, self.funcs, self.main, self.quals, self.pre = pid, globs, funcs, main, quals or {}, pre
        self.tags = set()
        self.inits = {}          # name -> int : const globals with an initialiser
    def c(self):
        s = self.pre
        for t, n in self.globs:
            q = self.quals.get(n)
            if n in self.inits: s += 'const ' + ctype(t, n) + ' = %d;\n' % self.inits[n]
            else: s += (q + ' ' if q else '') + ctype(t, n) + ';\n'
        for f in self.funcs: s += f.c()
        s += 'void main()\n' + self.main.c(0)
        return s
    def gnames(self): return [n for _, n in self.globs]
    def gtypes(self): return {n: t for t, n in self.globs}

"""C06 Diagnostics name the true source location (restricted scope, see DESIGN).
(a) E-MIR: the offset -> line translation of CompilerState::syntax_error / compiler_error / warning executed from MIR on a bounded
    symbolic text (every character symbolic over {x, newline}, length <= L) with a symbolic offset: z3 decides that the index used
    into the line table is the number of newlines strictly before the offset, and that it is in range.
(b) end-to-end: sources built from every ordered pair of line-shifting constructs followed by an error of each kind, with included
    C and assembler files; reported (file, line, included-in) compared with the position where the generator put the error."""
import os, re, itertools, time, collections, shutil
import z3
import common
from base import *

NL = 10


class TextS:
    """bounded symbolic text: concrete length, symbolic characters"""
    def __init__(self, chars): self.chars = chars


class LinesAbs:
    def __init__(self, n): self.n = n


def models_for(text, lines_abs):
    def m_chars(i, p, fr, c, a, d, r): return ret(p, fr, d, r, Opaque('chars', [text, 0]))
    def m_into_iter(i, p, fr, c, a, d, r): return ret(p, fr, d, r, a[0])
    def m_next(i, p, fr, c, a, d, r):
        it = S(a[0]); t, k = it.payload
        if k < len(t.chars): it.payload[1] += 1; return ret(p, fr, d, r, opt(t.chars[k]))
        return ret(p, fr, d, r, opt(None))
    def m_index(i, p, fr, c, a, d, r):
        idx = a[1]
        inb = z3.ULT(idx, lines_abs.n)
        depth = len(p.frames)
        def bad(q): i.results.append(('panic', q, 'mapped_lines index out of bounds')); q.events.append(('index.oob', idx, None)); return None
        def good(q):
            q.events.append(('mapped_lines.index', idx, None))
            el = Adt('tuple', None); el.fields[('', 0)] = Cell(Opaque('rc-filename')); el.fields[('', 1)] = Cell(z3.BitVec('lineno', 32)); el.fields[('', 2)] = Cell(Adt('Option', 0))
            f = q.frames[depth - 1]
            # destination cell lives in the (possibly copied) frame: re-resolve through the frame's env
            return True
        # fork manually so that the destination is written in the right copy
        out = []
        feas_bad = i.ctx.feasible(p.pc + [z3.Not(inb)])
        feas_good = i.ctx.feasible(p.pc + [inb])
        if feas_bad:
            q = copy.deepcopy(p) if feas_good else p
            q.pc.append(z3.Not(inb)); q.events.append(('index.oob', idx, None)); i.results.append(('panic', q, 'mapped_lines index out of bounds'))
        if feas_good:
            p.pc.append(inb); p.events.append(('mapped_lines.index', idx, None))
            el = Adt('tuple', None); el.fields[('', 0)] = Cell(Opaque('rc-filename')); el.fields[('', 1)] = Cell(z3.BitVec('lineno', 32)); el.fields[('', 2)] = Cell(Adt('Option', 0))
            d.v = Ref(Cell(el)); fr.bb = r
            out.append(p)
        return out
    def m_as_ref(i, p, fr, c, a, d, r): return ret(p, fr, d, r, opt(None))
    def m_map(i, p, fr, c, a, d, r): return ret(p, fr, d, r, opt(None))
    def m_tostring(i, p, fr, c, a, d, r): return ret(p, fr, d, r, Str(['<text>']))
    def m_println(i, p, fr, c, a, d, r): return ret(p, fr, d, r, Opaque('unit'))
    def m_len_utf8(i, p, fr, c, a, d, r): return ret(p, fr, d, r, z3.If(z3.ULT(a[0], 0x80), z3.BitVecVal(1, 64), z3.If(z3.ULT(a[0], 0x800), z3.BitVecVal(2, 64), z3.If(z3.ULT(a[0], 0x10000), z3.BitVecVal(3, 64), z3.BitVecVal(4, 64)))))
    M = dict(LIB)
    M.update({r'impl char>::len_utf8$': m_len_utf8, r'impl str>::chars$': m_chars, r'<Chars<.*> as IntoIterator>::into_iter$': m_into_iter, r'<Chars<.*> as Iterator>::next$': m_next,
              r'<Vec<\(Rc<.*> as Index<usize>>::index$': m_index, r'Option::<\(Rc<.*>::as_ref$': m_as_ref, r'Option::<&\(Rc<.*>::map::': m_map,
              r'as ToString>::to_string$': m_tostring, r'std::io::_print$': m_println})
    return M


EACUTE = 0xE9


def check_offsets(rep, mir, tier, st):
    L = 5 if tier == 'quick' else 6      # (7 before the alphabet got its two-byte character: byte positions are sums, queries are heavier)
    for fname in ('syntax_error', 'compiler_error', 'warning'):
        fn = [n for n in mir.index if n.endswith('>::' + fname) and 'compile.rs' in n][0]
        st['functions'].append(fn)
        for n in range(0, L + 1):
            ctx = Ctx(mir)
            chars = [z3.BitVec('c%d' % k, 32) for k in range(n)]
            for ch in chars: ctx.constraints.append(z3.Or(ch == NL, ch == ord('x'), ch == EACUTE))
            # offsets are BYTE offsets (pest spans) at character boundaries; e-acute takes two bytes
            blen = [z3.If(ch == EACUTE, z3.BitVecVal(2, 64), z3.BitVecVal(1, 64)) for ch in chars]
            pos = [sum(blen[:k], z3.BitVecVal(0, 64)) for k in range(n + 1)]
            loc = z3.BitVec('loc', 64); ctx.constraints.append(z3.Or(*[loc == pk for pk in pos]))
            nl_total = sum((z3.If(ch == NL, z3.BitVecVal(1, 64), z3.BitVecVal(0, 64)) for ch in chars), z3.BitVecVal(0, 64))
            # the line table has one entry per output line
            nlines = z3.BitVec('nlines', 64)
            last_open = z3.BoolVal(False) if n == 0 else (chars[-1] != NL)
            ctx.constraints.append(nlines == nl_total + z3.If(last_open, z3.BitVecVal(1, 64), z3.BitVecVal(0, 64)))
            text = TextS(chars); la = LinesAbs(nlines)
            it = Interp(ctx, inline=[], models=models_for(text, la)); it.assume_some = False
            it.allow_uninterpreted = [r'^log::', r'fmt::rt::Argument', r'^Arguments::', r'Rc<', r'Error::']
            cs = Adt('CompilerState', None); F = STRUCTS['CompilerState']
            cs.fields[('', F.index('preprocessed_utf8'))] = Cell(Ref(Cell(Opaque('text'))))
            cs.fields[('', F.index('mapped_lines'))] = Cell(Ref(Cell(Opaque('lines'))))
            t0 = time.time()
            try:
                res = it.run(fn, [Ref(Cell(cs)), Ref(Cell(Str(['msg']))), loc], max_steps=400, budget_s=120 if tier == 'quick' else 600)
            except Unsupported as e:
                rep.inconc('%s with %d characters: %s' % (fname, n, e)); break
            st['paths'] += len(res); st['queries'] += ctx.nq
            sol = z3.Solver(); sol.add(*ctx.constraints)
            for r in res:
                kind, p = r[0], r[1]
                if kind == 'boundhit': rep.inconc('%s: unrolling bound hit' % fname); continue
                # the offending token sits at a real character of the text: loc < n
                pre = p.pc + [z3.ULT(loc, pos[n])] if n > 0 else None
                if pre is None: continue
                before = lambda: sum((z3.If(z3.And(z3.ULT(pos[k], loc), chars[k] == NL), z3.BitVecVal(1, 64), z3.BitVecVal(0, 64)) for k in range(n)), z3.BitVecVal(0, 64))
                st['obligations'] += 1; st['queries'] += 1
                if kind == 'panic':
                    bad = pre
                else:
                    idxs = [e[1] for e in p.events if e[0] == 'mapped_lines.index']
                    if not idxs:
                        rep.inconc('%s: path without a line-table access' % fname); continue
                    bad = pre + [z3.Or(*[ix != before() for ix in idxs])]
                if sol.check(*bad) == z3.unsat: st['discharged'] += 1; continue
                # prefer a counterexample with a real token offset (>= 1), then one at column one
                for extra in ([z3.UGT(loc, 0)] + [z3.Or(*[z3.And(loc == pos[k + 1], chars[k] == NL) for k in range(n)])] if n else [], [z3.UGT(loc, 0)], []):
                    if sol.check(*(bad + list(extra))) == z3.sat: break
                m = sol.model()
                txt = ''.join({NL: '\n', 0xE9: '\u00e9'}.get(m.eval(ch, model_completion=True).as_long(), 'x') for ch in chars)
                lv = m.eval(loc, model_completion=True).as_long()
                want = txt.encode()[:lv].count(b'\n')
                got = 'panic' if kind == 'panic' else [m.eval(ix, model_completion=True).as_long() for ix in idxs][0]
                if (fname, lv > 0, txt[lv - 1:lv] == '\n') not in [(a, b > 0, t[b - 1:b] == '\n') for a, t, b, _, _ in st['candidates']]:
                    st['candidates'].append((fname, txt, lv, want, got))
            st['solver_s'] += time.time() - t0
        if len(st['samples']) < 3:
            st['samples'].append(dict(function=fname, text_lengths='0..%d' % L, alphabet="{'x', newline, e-acute (2 bytes)}; offsets are byte offsets at character boundaries", verdict='line index == number of newlines before the offset for every text and offset (unsat)'))


ERR_KINDS = [
    ('cpp-undef', lambda: '#if UNDEFINED_THING', 'Undefined identifier'),
    ('cpp-error', lambda: '#error boom', 'boom'),
    ('cpp-unterminated', lambda: 'const char *s = "abc;', 'Unterminated string'),
    ('syntax', lambda: 'char broken = ;', None),
    ('semantic', lambda: 'void bad() { undeclared_var = 1; }', None),
    ('semantic2', lambda: 'char dup1; char dup1;', None),
    ('codegen', lambda: 'char *cgp; void cg() { cgp[X] = 1; }', None),
    ('decl-type', lambda: 'short *too_complex;', None),
    ('decl-param-type', lambda: 'void tcf(short *q) { }', None),
    ('decl-neg-size', lambda: 'char negs[-2];', None),
]


def constructs(inc):
    """(name, source lines, physical lines consumed)"""
    return [
        ('decl', ['char p%d;']), ('blank', ['']), ('linecomment', ['// a comment with "quote and /* open']), ('blockcomment1', ['/* one line */']),
        ('blockcomment3', ['/* three', '   lines "with quote', '   end */']), ('comment_then_code', ['/* c', ' */ char q%d;']), ('splice', ['char s%d \\', ' ;']),
        ('splice3', ['char t%d \\', ' \\', ' ;']), ('define', ['#define M%d 3']), ('if0', ['#if 0', 'char dead%d;', 'garbage here ((', '#endif']),
        ('ifelse', ['#ifdef UNDEFINED_X', 'char dead2%d;', '#else', 'char live%d;', '#endif']), ('macro_use', ['#define K%d 1', 'const char u%d = K%d;']),
        ('include_c', ['#include "h_ok.h"']), ('include_asm', ['#include "a_ok.inc"']), ('func', ['void fn%d() {', '  X = 1;', '}']),
        # splices in lines that produce no output of their own (their continuation lines must still be counted)
        ('splice_in_block', ['/* a macro \\', '   continued \\', '   end */']), ('splice_in_linecomment', ['// note \\', 'still the comment']),
        ('splice_define', ['#define LONG%d 1 + \\', '  2']), ('include_asm_utf8', ['#include "a_utf8.inc"']), ('splice_in_if0', ['#if 0', 'dead \\', 'dead', '#endif']), ('splice_blank', [' \\', '']),
    ]


def build_sources(tier):
    cons = constructs(None)
    seqs = [[c] for c in cons] + [[a, b] for a, b in itertools.product(cons, cons) if not (a[0] == b[0] and a[0].startswith('include'))]
    if tier == 'thorough': seqs += [[a, b, c] for a, b, c in itertools.product(cons[2:9], cons, cons[:8])]
    out = []
    uid = 0
    for seq in seqs:
        for ek, mk, _ in ERR_KINDS:
            lines = []
            for nm, ls in seq:
                uid += 1
                lines += [l.replace('%d', str(uid)) for l in ls]
            lines.append(mk())
            errline = len(lines)
            lines.append('void main() { }')
            out.append(('/'.join(n for n, _ in seq) + '/' + ek, '\n'.join(lines) + '\n', 'stdin', errline, None))
    # an error on the very last line, which ends with a backslash-newline (or has no newline at all)
    for seq in [[c] for c in cons[:10]]:
        for ek, mk, _ in ERR_KINDS[:2] + ERR_KINDS[3:5]:
            for tail, tn in ((' \\\n', 'splice-at-eof'), ('', 'no-newline-at-eof')):
                lines = []
                for nm, ls in seq:
                    uid += 1; lines += [l.replace('%d', str(uid)) for l in ls]
                pre = 'void main() { }\n' if ek not in ('cpp-undef', 'cpp-error') else ''
                src = '\n'.join(lines) + '\n' + pre + mk() + tail
                out.append(('/'.join(n for n, _ in seq) + '/' + ek + '/' + tn, src, 'stdin', len(lines) + (2 if pre else 1), None))
    # a code-generation error preceded by warnings (earlier diagnostics of the same compilation), in text order and - through a
    # prototype, which makes the later definition be generated first - in reverse text order
    for seq in [[c] for c in cons[:12]] + [[cons[4], cons[6]], [cons[9], cons[7]]]:
        for ek, stmt in (('codegen-index', 'hp[X] = 1;'), ('codegen-mult', 'hi = hi * hj;'), ('codegen-void', 'hi = hv();')):
            for order in ('fwd', 'proto-back', 'two-back'):
                lines = ['char hi, hj; char *hp;', 'void hv() { }']
                if order != 'fwd': lines += ['void hw();'] + (['void hw2();'] if order == 'two-back' else [])
                if order == 'fwd': lines += ['void hw() {', '  hi = 300;', '}']
                for nm, ls in seq:
                    uid += 1; lines += [l.replace('%d', str(uid)) for l in ls]
                lines += ['void main()', '{', '  hj = 1;'] + (['  hw();'] if True else []) + (['  hw2();'] if order == 'two-back' else [])
                lines.append('  ' + stmt); errline = len(lines)
                lines.append('}')
                if order != 'fwd': lines += ['', 'void hw()', '{', '  hi = 300;', '}']
                if order == 'two-back': lines += ['void hw2() {', '', '  hj = 1000;', '}']
                out.append(('/'.join(n for n, _ in seq) + '/after-warning/' + order + '/' + ek, '\n'.join(lines) + '\n', 'stdin', errline, None))
    # errors inside included files
    for seq in [[c] for c in cons[:9]]:
        for hdr, hline in (('h_bad_syntax.h', 2), ('h_bad_cpp.h', 3), ('h_bad_sem.h', 2), ('h_error.h', 3), ('h_bad_codegen.h', 2), ('h_nested_bad.h', None), ('h_nonl_then_err', None), ('a_nonl_then_err', None)):
            lines = []
            for nm, ls in seq:
                uid += 1; lines += [l.replace('%d', str(uid)) for l in ls]
            lines.append('#include "%s"' % hdr)
            incl = len(lines)
            lines.append('void main() { }')
            if hdr in ('h_nonl_then_err', 'a_nonl_then_err'):
                # an included file whose last line has no line feed, then an error in the including file
                lines[incl - 1] = '#include "%s"' % ('h_nonl.h' if hdr.startswith('h_') else 'a_nonl.inc')
                for ek, mk, _ in ERR_KINDS[3:7]:
                    l2 = lines[:incl] + ['char after_inc%d;' % uid, mk()]
                    out.append(('/'.join(n for n, _ in seq) + '/after:' + hdr + '/' + ek, '\n'.join(l2 + ['void main() { }']) + '\n', 'stdin', len(l2), None))
                continue
            if hdr == 'h_nested_bad.h': out.append(('/'.join(n for n, _ in seq) + '/in:' + hdr, '\n'.join(lines) + '\n', 'h_bad_syntax.h', 2, ('h_nested_bad.h', 2)))
            else: out.append(('/'.join(n for n, _ in seq) + '/in:' + hdr, '\n'.join(lines) + '\n', hdr, hline, ('stdin', incl)))
    return out


SITE_DECLS = ['char hi, hj; char *hp; short hw; char ha[4];', 'void hv() { }', 'char hf(char x) { return x; }', 'void interrupt hirq() { hi = 1; }']
ERR_SITES = [
    ('mult', ['hi = hi * hj;']), ('div', ['hi = hi / hj;']), ('index-x', ['hp[X] = 1;']), ('void-value', ['hi = hv();']), ('shr16', ['hi = hw >> 3;']), ('shift-var', ['hi = hi << hj;']), ('shift-neg', ['hi = hi << -1;']),
    ('subscript-var', ['hi[2] = 1;']), ('break-outside', ['break;']), ('continue-outside', ['continue;']), ('strobe-var', ['strobe(hi);']), ('sizeof-expr', ['hi = sizeof(hi + 1);']), ('deref-var', ['hi = *hi;']),
    ('addr-short', ['hp = &hw;']), ('too-few', ['hi = hf();']), ('too-many', ['hi = hf(1, 2);']), ('call-var', ['hi();']), ('unknown-fn', ['undefined_fn();']), ('call-irq', ['hirq();']), ('csleep', ['csleep(1);']),
    ('return-value', ['return 1;']), ('neg-void', ['hi = -hv();']), ('while-void', ['while (hv()) { hj = 1; }']), ('if-void', ['if (hv()) hj = 1;']), ('tern-missing', ['hi = hj ? 1 : hv();']),
    ('switch-group-index', ['switch (hp[X]) {', 'case 1:', 'case 2:', '  hi = 1;', '}']), ('switch-index', ['switch (hp[X]) {', 'case 1:', '  hi = 1;', '}']), ('switch-group-void', ['switch (hv()) {', 'case 1: case 2:', '  hi = 1;', '}']),
    ('in-for', ['for (hj = 0; hj < 3; hj++) {', '  hi = hi * hj;', '}'], 1), ('in-else', ['if (hi) {', '  hi = 1;', '} else {', '  hi = hi / hj;', '}'], 3), ('in-while-cond', ['while (hi * hj) {', '  hi = 1;', '}'], 0),
    ('in-do-cond', ['do {', '  hi = 1;', '} while (hi * hj);']), ('in-for-update', ['for (hj = 0; hj < 3; hj = hj * hi) {', '  hi = 1;', '}'], 0), ('in-switch-case', ['switch (hi) {', 'case 1:', '  hi = 1;', '  break;', 'case 2:', '  hi = hi * hj;', '}'], 5),
    ('in-nested-block', ['{', '  {', '    hp[X] = 1;', '  }', '}'], 2), ('in-call-arg', ['hi = hf(', '  hi * hj', ');']), ('complex', ['hi = (hi + hj) + ((hi + hj) + ((hi + hj) + ((hi + hj) + (hi + (hj + (hi + hj))))));']),
    ('second-of-two', ['hi = 1; hj = hi * hj;']), ('after-label', ['again:', '  hi = hi * hj;']), ('local-init', ['{', '  char l = hv();', '  hi = l;', '}'], 1),
]

# errors that need a bankswitching scheme: a call into another bank when the program forgot to declare ROM_SELECT
ERR_SITES_ARGS = [('bank-call-%s' % sn, st, ['bank1 void hbank() { hi = 1; }', 'bank1 char hbankv() { return 1; }'], ['-D' + d])
                  for sn, d in (('3E', '__3E__'), ('SG', '__SUPERGAME__'), ('SGX', '__SUPERGAME_EXFIX__')) for st in (['hbank();'], ['hi = hbankv();'], ['if (hi) {', '  hbank();', '}'])]
ERR_SITES_ARGS = [(n + '-%d' % k, st, dcl, a) for k, (n, st, dcl, a) in enumerate(ERR_SITES_ARGS)]


def site_sources():
    """a statement the generator rejects, at a known place of main: the error must lie inside the statement's lines (the generator
    attributes an error to the statement it is generating: the condition of a do-while is reported on the `do` line, a labelled
    statement on its label - any line of the statement is accepted), and exactly on the line of the offending NESTED statement
    where there is one"""
    out = []
    pres = [('plain', []), ('comment3', ['/* three', '   lines', '   end */']), ('define-blank', ['#define HK 3', '']), ('splice', ['char hs \\', ' ;']), ('if0', ['#if 0', 'garbage ((', '#endif'])]
    for ent in ERR_SITES + [(n, st, None, dcl, a) for n, st, dcl, a in ERR_SITES_ARGS]:
        name, stmt = ent[0], ent[1]
        exact = ent[2] if len(ent) > 2 else None
        xdecl, xargs = (ent[3], ent[4]) if len(ent) > 4 else ([], [])
        for pn, pre in pres:
            for fn in ('main', 'func'):
                lines = list(SITE_DECLS) + xdecl + pre
                lines += ['void main()' if fn == 'main' else 'void worker()', '{', '  hj = 2;']
                first = len(lines) + 1
                ind = '' if pn in ('comment3', 'if0') else '  '          # also statements that start in column one
                lines += [ind + l for l in stmt]
                last = len(lines)
                lines += ['  hj = 3;', '}']
                if fn == 'func': lines += ['void main() { worker(); }']
                ok = {first + exact} if exact is not None else set(range(first, last + 1))
                out.append(('site/%s/%s/%s' % (name, pn, fn), '\n'.join(lines) + '\n', ok, xargs))
    return out


def write_headers(d):
    os.makedirs(d, exist_ok=True)
    files = {'h_ok.h': 'char from_header_a;\nchar from_header_b;\n', 'a_ok.inc': '; assembler\n\tNOP\n',
             'h_bad_syntax.h': 'char hb_ok;\nchar hb_broken = ;\n', 'h_bad_cpp.h': 'char hc_ok;\n// c\n#if UNDEFINED_IN_HEADER\n#endif\n',
             'h_bad_sem.h': 'char hs_dup;\nchar hs_dup;\n', 'h_nonl.h': 'char hn1;\nchar hn2;', 'a_nonl.inc': '; asm\n\tNOP', 'a_utf8.inc': '; m\u00e9lodie jou\u00e9e \u00e0 l\u2019\u00e9cran \u2014 \u00e9\u00e8\u00ea\u00eb\u00e0\u00e2\u00f9\u00fb\u00e7\u00f4\u00ee\u00ef \u00e9\u00e9\u00e9\u00e9\u00e9\u00e9\u00e9\u00e9\u00e9\u00e9\nsnd\n\tRTS\n', 'h_error.h': 'char he_ok;\n/* c */\n#error stop here\n',
             'h_bad_codegen.h': 'char hg_a, hg_b;\nvoid hg_f() { hg_a = hg_a * hg_b; }\n', 'h_nested_bad.h': 'char hn_ok;\n#include "h_bad_syntax.h"\n'}
    for n, t in files.items(): open(os.path.join(d, n), 'w', encoding='utf-8').write(t)


def check_end_to_end(rep, tier, st):
    d = os.path.join(common.CACHE, 'c06_inc')
    write_headers(d)
    srcs = build_sources(tier)
    reqs = [('e%d' % k, ['-I', d], s) for k, (pid, s, f, l, inc) in enumerate(srcs)]
    R = common.compile_many(reqs)
    for k, (pid, s, f, l, inc) in enumerate(srcs):
        c = R['e%d' % k]
        st['sources'] += 1
        if c.status in ('panic', 'timeout', 'crash'):
            st['crashes'] += 1
            rep.violation('loc.crash.' + pid, 'error source %s: the compiler %s instead of reporting a located error: %s' % (pid, c.status, c.msg), dict(kind='loc', source=s, args=['-I', d], expect=[f, l, inc], got=[c.status, c.msg]))
            continue
        if c.status != 'err' or not c.err or 'line' not in c.err:
            rep.violation('loc.noerr.' + pid, 'error source %s: expected a located error, got %s %s' % (pid, c.status, c.msg), dict(kind='loc', source=s, args=['-I', d], expect=[f, l, inc], got=[c.status, c.msg])); continue
        e = c.err
        check_display(rep, st, pid, s, d, c)
        gotf = os.path.basename(e['filename']); gotl = e['line']; goti = (os.path.basename(e['included_in'][0]), e['included_in'][1]) if e.get('included_in') else None
        # a spliced logical line may be reported on any of its physical lines
        ok_lines = {l}
        ok = gotf == f and gotl in ok_lines and (inc is None or goti == tuple(inc))
        if ok: st['located'] += 1; continue
        ek = pid.split('/')[-1]
        rep.violation('loc.%s' % pid, 'error source %s: error is at %s:%d%s, reported at %s:%d%s (%s)' % (pid, f, l, (' included in %s:%d' % tuple(inc)) if inc else '', gotf, gotl, (' included in %s:%d' % goti) if goti else '', e.get('msg', '')[:60]),
                      dict(kind='loc', source=s, args=['-I', d], expect=[f, l, inc], got=[gotf, gotl, goti, e.get('msg')]))


DISPLAY_RE = re.compile(r' on line (\d+) of (.*?)(?: \(included in (.*) on line (\d+)\))?$', re.S)


def check_sites_and_display(rep, tier, st):
    d = os.path.join(common.CACHE, 'c06_inc')
    S = site_sources()
    if tier == 'quick': S = [x for x in S if x[0].endswith('/main') or common_pick(x[0], 40)]
    R = common.compile_many([('s%d' % k, ['-I', d] + xa, s) for k, (pid, s, ok, xa) in enumerate(S)])
    for k, (pid, s, ok, xa) in enumerate(S):
        c = R['s%d' % k]
        if c.status in ('panic', 'timeout', 'crash'):
            rep.violation('loc.crash.' + pid, 'error site %s: the compiler %s instead of reporting a located error: %s' % (pid, c.status, c.msg), dict(kind='loc', source=s, args=['-I', d] + xa, expect=['stdin', sorted(ok), None], got=[c.status, c.msg])); continue
        if c.status != 'err' or not c.err or 'line' not in c.err: st['sites_accepted'] += 1; continue      # the statement is accepted (or the error has no location): nothing to locate
        st['sites'] += 1
        e = c.err
        if os.path.basename(e['filename']) == 'stdin' and e['line'] in ok and not e.get('included_in'): st['sites_located'] += 1
        else:
            rep.violation('loc.%s' % pid, 'error site %s: the rejected statement is on line(s) %s, the error is reported at %s:%d (%s)' % (pid, sorted(ok), os.path.basename(e['filename']), e['line'], e.get('msg', '')[:70]),
                          dict(kind='loc', source=s, args=['-I', d] + xa, expect=['stdin', sorted(ok), None], got=[os.path.basename(e['filename']), e['line'], e.get('included_in'), e.get('msg')]))


def common_pick(pid, pct):
    import hashlib
    return int(hashlib.md5(pid.encode()).hexdigest(), 16) % 100 < pct


def check_display(rep, st, pid, s, d, c):
    """the rendered message (what a user reads) names the same place as the structured fields"""
    e = c.err
    m = DISPLAY_RE.search(c.msg or '')
    st['displays'] += 1
    if not m:
        rep.violation('display.%s' % pid, 'error source %s: the rendered message %r does not name a line and a file' % (pid, c.msg), dict(kind='loc', source=s, args=['-I', d], expect=None, got=[c.status, c.msg])); return
    want = (str(e['line']), e['filename'], e['included_in'][0] if e.get('included_in') else None, str(e['included_in'][1]) if e.get('included_in') else None)
    if m.groups() != want:
        rep.violation('display.%s' % pid, 'error source %s: the rendered message %r names %s, the error structure says %s' % (pid, c.msg, m.groups(), want), dict(kind='loc', source=s, args=['-I', d], expect=list(want), got=[c.status, c.msg]))


def replay_offsets(rep, st):
    """E-MIR candidates replayed through compile(): a semantic error whose token sits at the modelled offset of a text with the
    modelled line structure (offset 0 is reached by errors the generator raises without a position, e.g. `short *p;`)"""
    for fname, txt, lv, want, got in st['candidates']:
        tb = txt.encode(); head = tb[:lv].decode(errors='ignore')
        lines_before = head.count('\n'); col = len(head) - (head.rfind('\n') + 1)
        pre = ''.join('char f%d;\n' % k for k in range(lines_before))
        ne = head.count('\u00e9')
        if ne:
            # multi-byte characters before the offset: same line structure, the error token last, and (at least) the model's drift between
            # byte and character offsets, carried by character constants (they survive preprocessing)
            src = pre + "char zv; void main() { " + "zv = '\u00e9'; " * (8 * ne) + "zq; }\n"; expect_line = lines_before + 1
        elif lv == 0: src = 'short *p;\nchar a1;\nchar a2;\nvoid main() {}\n'; expect_line = 1
        elif lines_before == 0: src = ' ' * col + 'char zq; char zq;\nchar a2;\nvoid main() {}\n'; expect_line = 1
        else: src = pre + ' ' * col + 'char f0;\nchar a2;\nvoid main() {}\n'; expect_line = lines_before + 1
        c = common.compile_one(src)
        st['replays'] += 1
        if c.status == 'err' and c.err.get('line') == expect_line:
            rep.inconc('%s: model (text %r, offset %d: index %s, expected %d) did not reproduce through compile()' % (fname, txt, lv, got, want)); continue
        rep.violation('offset.%s.%s' % (fname, 'zero' if lv == 0 else 'column-one' if col == 0 else 'other'),
                      '%s: for text %r and offset %d the line-table index is %s but the offset lies on line index %d; replay: error expected on line %d, the compiler says %s' % (
            fname, txt, lv, got, want, expect_line, (c.status, c.err.get('line') if c.err else c.msg)), dict(kind='loc', source=src, args=[], expect=['stdin', expect_line, None], got=[c.status, c.err or c.msg]))


def run(tier):
    rep = common.Report('C06', tier, 'other')
    common.build_driver()
    st = collections.defaultdict(int); st['functions'] = []; st['samples'] = []; st['candidates'] = []
    mir = load('on')
    check_offsets(rep, mir, tier, st)
    replay_offsets(rep, st)
    check_end_to_end(rep, tier, st)
    check_sites_and_display(rep, tier, st)
    rep.cov = dict(explanation='(a) syntax_error, compiler_error and warning executed from the rustc MIR of the current tree on a bounded symbolic text (length 0..L, each character symbolic over {x, newline}) with a symbolic offset '
                   'and an abstract line table: z3 decides that the line-table index equals the number of newlines strictly before the offset and is in range, for every text and offset; (b) end-to-end: every ordered pair of '
                   'line-shifting constructs followed by each kind of error, and errors inside (nested) included files: reported file/line/included-in compared with the position the generator knows',
                   obligations=st['obligations'], discharged=st['discharged'], evaluations=st['paths'] + st['sources'], distinct_nontrivial=st['obligations'], functions_encoded=st['functions'], paths=st['paths'], queries=st['queries'],
                   solver_s=round(st['solver_s'], 1), replays=st['replays'], end_to_end_sources=st['sources'], located_correctly=st['located'], samples=st['samples'],
                   bounds=dict(text_length='<= %d characters' % (5 if tier == 'quick' else 6), alphabet="{'x', '\\n', e-acute (2 bytes)}; offsets are byte offsets at character boundaries", loop_unrolling='text length + 1', end_to_end='1-2 (thorough: 3) preceding constructs x 7 error kinds; 4 header error shapes'),
                   scope='the offset->line translation and the line accounting of the preprocessor; that every generator error passes the right position is exercised only for the listed error kinds',
                   trusted_base=['mirsym + Chars/Vec models', 'z3', 'driver'])
    rep.assumptions = ['the line table has one entry per output line', 'ASCII text', 'a spliced logical line is reported on its last physical line or any of its lines (property allows any)']
    return rep.finish()

"""Relational checking of compiled variants: the solver ranges over every initial machine state."""
import time, z3
from sym6502 import *
from linker import Layout, Alloc, PTR_REGION

PTR_LO, PTR_HI = PTR_REGION, PTR_REGION + 0x1ff


class Variant:
    def __init__(self, comp, alloc, hw=None, ports=None, entry='main'):
        self.comp = comp
        self.layout = Layout(comp, alloc)
        funcs = {f: comp.funcs[f]['lines'] for f in comp.order if comp.funcs[f]['has_code'] and not comp.funcs[f]['inline']}
        self.prog = Program(funcs, self.layout.sym, entry=entry)
        for f in self.prog.func_range:
            for ins, d in self.prog.branch_displacements(f):
                if not -128 <= d <= 127: raise AsmError('branch out of range (%d bytes) in %s: %s' % (d, f, ins.raw.strip()))
        self.hw, self.ports = hw, ports

    def pointer_vars(self):
        return [(n, a) for n, a, nb, v in self.layout.ram if v['type'] == 'CharPtr' and not v['const'] and v['size'] == 1]


class Outcome:
    def __init__(self, verdict, **kw):
        self.verdict = verdict      # 'equal' | 'diff' | 'termdiff' | 'unsupported' | 'mismatch'
        self.__dict__.update(kw)


def observables_of(variant, names, st):
    obs = []
    for n, a, nb, v in variant.layout.ram:
        if n in names:
            for k in range(nb):
                obs.append(('%s+%d' % (n, k), st.M.load(a + k)))
    obs.append(('X', st.X)); obs.append(('Y', st.Y))
    return obs


def differ(oa, ob):
    ds = []
    for (na, va), (nb_, vb) in zip(oa, ob):
        assert na == nb_, (na, nb_)
        if is_c(va) and is_c(vb):
            if va != vb: return True
            continue
        if not is_c(va) and not is_c(vb) and va.eq(vb): continue
        ds.append(bv8(va) != bv8(vb))
    if not ds: return False
    return z3.Or(*ds)


class Session:
    """One base program and its variants, sharing one symbolic initial state and one solver."""
    def __init__(self, max_back=40, max_steps=4000, max_paths=300, timeout_ms=20000):
        self.sol = z3.Solver(); self.sol.set('timeout', timeout_ms)
        self.alloc = Alloc()
        self.max_back, self.max_steps, self.max_paths = max_back, max_steps, max_paths
        self.queries = 0; self.solver_s = 0.0
        self.M0 = z3.Array('M0', z3.BitVecSort(16), z3.BitVecSort(8))
        self.assumed = []
        self.runs = {}

    def variant(self, comp, **kw):
        return Variant(comp, self.alloc, **kw)

    def init_state(self, var):
        s = sym_state()
        arr = self.M0
        for a, b in sorted(var.layout.rom.items()):
            arr = z3.Store(arr, z3.BitVecVal(a, 16), z3.BitVecVal(b, 8))
        s.M = Mem(arr=arr)
        for a, b in var.layout.rom.items():
            s.M.cache[a] = b
        return s

    def assume_ptrs(self, var):
        """A-ptr: every pointer variable initially points into the dedicated data region"""
        for n, a in var.pointer_vars():
            if ('ptr', a) in self.assumed: continue
            self.assumed.append(('ptr', a))
            self.sol.add(z3.Select(self.M0, z3.BitVecVal(a + 1, 16)) == z3.BitVecVal(PTR_REGION >> 8, 8))

    def assume(self, cond, tag):
        self.assumed.append(tag); self.sol.add(cond)

    def check(self, conds):
        self.queries += 1
        t = time.time()
        self.sol.push(); self.sol.add(*[zb(c) for c in conds]); r = self.sol.check()
        m = self.sol.model() if r == z3.sat else None
        self.sol.pop()
        self.solver_s += time.time() - t
        if r == z3.unknown: raise Unsupported('solver unknown')
        return m

    def run(self, var):
        key = id(var)
        if key in self.runs: return self.runs[key]
        self.assume_ptrs(var)
        m = Machine(var.prog, solver=self.sol, hw=var.hw, ports=var.ports, max_back=self.max_back, max_steps=self.max_steps, max_paths=self.max_paths)
        m.extents = var.layout.extents
        t = time.time()
        outs = m.run(self.init_state(var))
        self.queries += m.queries; self.solver_s += time.time() - t
        self.runs[key] = (outs, m.bound_hits, m)
        return self.runs[key]

    # ------------------------------------------------------------------ comparison
    def run_ref(self, var, prog, mode, hw_names=None):
        """reference semantics of cast.Prog over the layout of var. Returns (finals, bound_hits)."""
        from refsem import Ref, RState
        self.assume_ptrs(var)
        s0 = self.init_state(var)
        if hw_names: prog.hw_names = hw_names
        r = Ref(prog, var.layout, self, mode=mode, max_iters=self.max_back, max_paths=self.max_paths,
                hw=set(hw_names.values()) if hw_names else None)
        outs = r.run(RState(s0.M, s0.X, s0.Y))
        return outs, r.bound_hits

    def compare(self, va, vb, names, events=False, runs_a=None):
        """names: observable variable names. Returns Outcome. runs_a: precomputed (finals, hits) standing for va (reference)"""
        if runs_a is not None: fa, ha = runs_a
        else: fa, ha, _ = self.run(va)
        fb, hb, _ = self.run(vb)
        k = z3.BitVec('kptr', 16)
        npairs = 0
        for a in fa:
            oa = observables_of(va, names, a)
            for b in fb:
                ob = observables_of(vb, names, b)
                d = differ(oa, ob)
                # data region reachable through pointers
                rd = None
                if not a.M.arr.eq(b.M.arr):
                    rd = z3.And(z3.UGE(k, PTR_LO), z3.ULE(k, PTR_HI), z3.Select(a.M.arr, k) != z3.Select(b.M.arr, k))
                ed = None
                if events:
                    ed = events_differ(a.events, b.events)
                terms = [x for x in (d, rd, ed) if x is not False and x is not None]
                if not terms: continue
                if any(x is True for x in terms): cond = True
                else: cond = z3.Or(*terms)
                npairs += 1
                m = self.check(a.pcond + b.pcond + ([cond] if cond is not True else []))
                if m is not None:
                    return Outcome('diff', model=m, a=a, b=b, pairs=npairs)
        # termination: one side finishes where the other hits the loop bound
        for fin, hit, who in ((fa, hb, 'b'), (fb, ha, 'a')):
            for h in hit:
                for f in fin:
                    m = self.check(f.pcond + h.pcond)
                    if m is not None:
                        return Outcome('termdiff', model=m, who=who, pairs=npairs)
        return Outcome('equal', pairs=npairs, bound_hits=len(ha) + len(hb), paths=(len(fa), len(fb)))

    def can_differ(self, va, vb, names, events=False, runs_a=None, cap=400):
        """which observables differ for SOME initial state (the failure signature of a disagreeing pair of programs): a sorted list of
        labels, decided per observable over every pair of final paths - independent of the model the solver happened to return"""
        if runs_a is not None: fa, ha = runs_a
        else: fa, ha, _ = self.run(va)
        fb, hb, _ = self.run(vb)
        k = z3.BitVec('kptr', 16)
        sig, nq = set(), 0
        for a in fa:
            oa = observables_of(va, names, a)
            for b in fb:
                ob = observables_of(vb, names, b)
                if self.check(a.pcond + b.pcond) is None: continue
                for (na, xa), (nb_, xb) in zip(oa, ob):
                    if na in sig: continue
                    d = differ([(na, xa)], [(nb_, xb)])
                    if d is False: continue
                    nq += 1
                    if nq > cap: sig.add('...'); return sorted(sig)
                    if d is True or self.check(a.pcond + b.pcond + [d]) is not None: sig.add(na)
                if 'mem[*]' not in sig and not a.M.arr.eq(b.M.arr):
                    rd = z3.And(z3.UGE(k, PTR_LO), z3.ULE(k, PTR_HI), z3.Select(a.M.arr, k) != z3.Select(b.M.arr, k))
                    if self.check(a.pcond + b.pcond + [rd]) is not None: sig.add('mem[*]')
                if events and 'events' not in sig:
                    ed = events_differ(a.events, b.events)
                    if ed is True or (ed is not False and self.check(a.pcond + b.pcond + [ed]) is not None): sig.add('events')
        for fin, hit in ((fa, hb), (fb, ha)):
            for h in hit:
                if 'termination' in sig: break
                for f in fin:
                    if self.check(f.pcond + h.pcond) is not None: sig.add('termination'); break
        return sorted(sig)

    # ------------------------------------------------------------------ model -> concrete replay
    def concretize(self, model, variants):
        ev = lambda t: model.eval(t, model_completion=True).as_long()
        regs = {'A': ev(z3.BitVec('A0', 8)), 'X': ev(z3.BitVec('X0', 8)), 'Y': ev(z3.BitVec('Y0', 8))}
        for f in 'NZCV':
            regs[f] = z3.is_true(model.eval(z3.Bool(f + '0'), model_completion=True))
        mem = {}
        ranges = [(0x00, 0x300), (0x1000, 0x1500), (PTR_LO - 0x100, PTR_HI + 0x200), (0xF000, 0xF400)]
        for lo, hi in ranges:
            for a in range(lo, hi):
                mem[a] = ev(z3.Select(self.M0, z3.BitVecVal(a, 16)))
        return regs, mem


def events_differ(ea, eb):
    if len(ea) != len(eb): return True
    ds = []
    for (ka, aa, va, _ca), (kb, ab, vb, _cb) in zip(ea, eb):
        if ka != kb: return True
        if is_c(aa) and is_c(ab):
            if aa != ab: return True
        else:
            ds.append(bv16(aa) != bv16(ab))
        if va is None or vb is None:
            if (va is None) != (vb is None): return True
            continue
        if is_c(va) and is_c(vb):
            if va != vb: return True
        elif not (not is_c(va) and not is_c(vb) and va.eq(vb)):
            ds.append(bv8(va) != bv8(vb))
    if not ds: return False
    return z3.Or(*ds)


def run_concrete(var, regs, mem, max_steps=200000):
    """concrete execution of a variant from (regs, mem); returns final State or None (no termination)"""
    m2 = dict(mem)
    m2.update(var.layout.rom)
    s = conc_state(regs, m2)
    mach = Machine(var.prog, hw=var.hw, ports=var.ports, max_back=10 ** 9, max_steps=max_steps)
    mach.extents = var.layout.extents
    outs = mach.run(s)
    return outs[0] if outs else None


def concrete_obs(var, names, st):
    o = {}
    for n, a, nb, v in var.layout.ram:
        if n in names:
            for k in range(nb): o['%s+%d' % (n, k)] = st.M.load(a + k)
    o['X'] = st.X; o['Y'] = st.Y
    for a in range(PTR_LO, PTR_HI + 1):
        v = st.M.load(a)
        o['mem[%04x]' % a] = v
    return o


def confirm(sess, out, va, vb, names, events=False):
    """replay a solver model concretely on both variants. Returns (confirmed: bool, detail dict)."""
    regs, mem = sess.concretize(out.model, (va, vb))
    sa = run_concrete(va, regs, mem); sb = run_concrete(vb, regs, mem)
    detail = {'regs': regs, 'mem': {('%04x' % a): v for a, v in mem.items() if v != 0 and (a < 0x200 or a >= 0x1000)}}
    if sa is None or sb is None:
        detail['termination'] = {'a_terminates': sa is not None, 'b_terminates': sb is not None}
        return (sa is None) != (sb is None), detail
    oa, ob = concrete_obs(va, names, sa), concrete_obs(vb, names, sb)
    diffs = {k: (oa[k], ob[k]) for k in oa if oa[k] != ob[k]}
    if events and [x[:3] for x in sa.events] != [x[:3] for x in sb.events]:
        diffs['events'] = (sa.events, sb.events)
    detail['diffs'] = {k: v for k, v in list(diffs.items())[:12]}
    return bool(diffs), detail

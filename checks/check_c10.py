"""C10 Compile-time constant expressions evaluate as in C.
E-MIR: the calculator's infix/prefix closures of parse_calc are executed symbolically from the MIR of the current tree
(all 2^64 operand pairs per operator decided by z3); the calculator's operator table is extracted from compile()'s MIR and
compared with C for every operator pair; parse_sizeof with a symbolic Variable. E-TV: constants folded inside statements
against the reference semantics. Every solver model is replayed through the real compiler before it is reported."""
import itertools, time, collections
import z3
import common, runner
from base import *
import pratt
from cast import *
from families import V, C, A, B, mkprog

SENT = 0x7eaddead
I32 = lambda n: z3.BitVecVal(n, 32)


def spec(rule, l, r):
    """(defined, value) of `l rule r` on 32-bit ints under C semantics; undefined => the compiler must reject"""
    L, R = z3.SignExt(32, l), z3.SignExt(32, r)
    fits = lambda x: z3.SignExt(32, z3.Extract(31, 0, x)) == x
    b = lambda c: z3.If(c, I32(1), I32(0))
    T = z3.BoolVal(True)
    if rule == 'mul': x = L * R; return fits(x), z3.Extract(31, 0, x)
    if rule == 'add': x = L + R; return fits(x), z3.Extract(31, 0, x)
    if rule == 'sub': x = L - R; return fits(x), z3.Extract(31, 0, x)
    if rule == 'div': return z3.And(r != 0, z3.Not(z3.And(l == I32(-2 ** 31), r == I32(-1)))), l / r
    if rule == 'and': return T, l & r
    if rule == 'or': return T, l | r
    if rule == 'xor': return T, l ^ r
    if rule == 'brs': return z3.And(r >= 0, r < 32), l >> r
    if rule == 'bls': x = L << z3.ZeroExt(32, r); return z3.And(r >= 0, r < 32, fits(x)), z3.Extract(31, 0, x)
    if rule == 'land': return T, b(z3.And(l != 0, r != 0))
    if rule == 'lor': return T, b(z3.Or(l != 0, r != 0))
    if rule == 'gt': return T, b(l > r)
    if rule == 'gte': return T, b(l >= r)
    if rule == 'lt': return T, b(l < r)
    if rule == 'lte': return T, b(l <= r)
    if rule == 'eq': return T, b(l == r)
    if rule == 'neq': return T, b(l != r)
    if rule == 'ternary_cond1': return T, z3.If(l != 0, r, I32(SENT))       # internal encoding of `c ? a`
    if rule == 'ternary_cond2': return T, z3.If(l == I32(SENT), r, l)       # `(c ? a) : b`
    return None


def csrc(rule, l, r):
    sym = dict(pratt.C_SYM)
    if rule in sym: return 'const int k = (%d) %s (%d);' % (l, sym[rule], r)
    return None


def replay_const(src):
    """compile `const int k = ...;` through the real compiler: ('ok', value) | ('err', msg) | ('panic', msg)"""
    c = common.compile_one(src + ' void main() {}')
    if c.status == 'ok':
        for v in c.vars:
            if v['name'] == 'k':
                m = re.match(r'Value\(Int\((-?\d+)\)\)', v['d'])
                if m: return ('ok', int(m.group(1)))
        return ('ok', None)
    return (c.status, c.msg)


def signed32(x): return x - (1 << 32) if x >= (1 << 31) else x


def check_closure(rep, mir, nums, which, st):
    ctx = Ctx(mir)
    it = Interp(ctx, inline=[], models=LIB); it.assume_some = False
    name = mir.find('::parse_calc::{closure#%d}' % which)
    lhs = ctx.fresh('Result<i32, error::Error>', 'lhs'); rhs = ctx.fresh('Result<i32, error::Error>', 'rhs')
    lv = lhs.field('Ok', 0, 'i32', ctx).v; rv = rhs.field('Ok', 0, 'i32', ctx).v      # created before any fork copies the operands
    if which == 1: args = [Ref(Cell(Adt('closure', None))), lhs, Opaque('pair'), rhs]
    else: args = [Ref(Cell(Adt('closure', None))), Opaque('pair'), rhs]
    t0 = time.time()
    res = it.run(name, args)
    st['paths'] += len(res); st['functions'].append(name)
    inv = {d: n for n, d in nums.items()}
    okl = (lhs.discr == 0); okr = (rhs.discr == 0)
    sol = z3.Solver(); sol.set('timeout', 60000)
    def query(conds):
        st['queries'] += 1
        sol.push(); sol.add(*ctx.constraints); sol.add(*conds); r = sol.check(); m = sol.model() if r == z3.sat else None; sol.pop()
        if r == z3.unknown: rep.inconc('solver unknown on a calculator obligation'); return None
        return m
    seen_rules = set()
    for r in res:
        kind, p = r[0], r[1]
        rule_ev = [e for e in p.events if e[0].endswith('::as_rule')]
        rt = rule_ev[0][2].discr if rule_ev else None
        if rt is None:
            # paths that end before the operator is looked at: an operand was Err -> must return Err
            if kind == 'return' and (isinstance(r[2].discr, int) and r[2].discr == 1): st['err_propagation_paths'] += 1; continue
            rep.inconc('closure#%d: path without operator lookup is not an Err return' % which); continue
        feas_rules = [k for k in (nums[n] for n in nums) if query(p.pc + [rt == k]) is not None]
        if kind == 'panic':
            reach = [inv[k] for k in feas_rules if (which == 1 and spec(inv[k], lv, rv) is not None) or (which == 2 and inv[k] in ('neg', 'not', 'bnot'))]
            if not reach:
                st['isolated_panic_paths'] += 1; st['unconfirmed_isolated'].append('closure#%d panics for rules %s that the calculator grammar never passes' % (which, sorted(set(feas_rules) - set(nums.values())) or 'other'))
                continue
            for rn in reach:
                m = query(p.pc + [rt == nums[rn]])
                l = signed32(m.eval(lv, model_completion=True).as_long()); rr = signed32(m.eval(rv, model_completion=True).as_long())
                src = csrc(rn, l, rr) if which == 1 else 'const int k = %s(%d);' % ({'neg': '-', 'not': '!', 'bnot': '~'}[rn], rr)
                if src is None and rn.startswith('ternary'): src = 'const int k = (%d) ? (%d) : 1;' % (l, rr)
                # an operand that is itself an error: use a sub-expression the calculator rejects
                if which == 1 and m.eval(lhs.discr, model_completion=True).as_long() == 1: src = src.replace('(%d)' % l, '(1/0)', 1)
                if m.eval(rhs.discr, model_completion=True).as_long() == 1: src = src[::-1].replace(('(%d)' % rr)[::-1], '(1/0)'[::-1], 1)[::-1]
                out = replay_const(src) if src else ('n/a', None)
                st['replays'] += 1
                if out[0] in ('panic', 'timeout', 'crash'):
                    rep.violation('parse_calc.closure%d.%s.panic' % (which, rn), 'constant expression `%s` panics the compiler: %s (MIR path: %s)' % (src, out[1], r[2]),
                                  dict(kind='mir-const', source=src + ' void main() {}', expect='error or value', got=out))
                else:
                    rep.inconc('closure#%d: panic path for %s (%s) did not reproduce: %s' % (which, rn, src, out))
            continue
        ret_ = r[2]
        for k in feas_rules:
            rn = inv[k]; seen_rules.add(rn)
            if which == 1:
                sp = spec(rn, lv, rv)
                if sp is None: continue
                defined, val = sp
                pre = [rt == k, okl, okr]
            else:
                if rn not in ('neg', 'not', 'bnot'): continue
                defined = (rv != I32(-2 ** 31)) if rn == 'neg' else z3.BoolVal(True)
                val = {'neg': -rv, 'not': z3.If(rv == 0, I32(1), I32(0)), 'bnot': ~rv}[rn]
                pre = [rt == k, okr]
            st['obligations'] += 1
            if isinstance(ret_.discr, int) and ret_.discr == 1:
                bad = p.pc + pre + [defined]; expect = 'value'
            else:
                v = ret_.fields[('Ok', 0)].v
                okc = [] if isinstance(ret_.discr, int) else [ret_.discr == 0]
                bad = p.pc + pre + okc + [z3.Or(z3.Not(defined), v != val)]; expect = 'ok'
            m = query(bad)
            if m is None:
                st['discharged'] += 1; continue
            l = signed32(m.eval(lv, model_completion=True).as_long()); rr = signed32(m.eval(rv, model_completion=True).as_long())
            dm = z3.is_true(m.eval(defined, model_completion=True)); want = signed32(m.eval(val, model_completion=True).as_long()) if dm else None
            src = csrc(rn, l, rr) if which == 1 else 'const int k = %s(%d);' % ({'neg': '-', 'not': '!', 'bnot': '~'}[rn], rr)
            if src is None and rn in ('ternary_cond1', 'ternary_cond2'):
                # the two halves of c ? a : b cannot be written alone: replay the whole conditional with the model's operands
                if rn == 'ternary_cond1': cv, av, bv = l, rr, (rr + 1 if rr != 2147483647 else 5)
                else: cv, av, bv = 0, 3, rr
                src = 'const int k = (%d) ? (%d) : (%d);' % (cv, av, bv); want = av if cv != 0 else bv; dm = True
            if src is None:
                st['unconfirmed_isolated'].append('%s(%d,%d): MIR result differs from the encoding spec' % (rn, l, rr)); rep.inconc('ternary encoding obligation failed for %s' % rn); continue
            out = replay_const(src); st['replays'] += 1
            good = (out[0] == 'ok' and out[1] == want) if dm else (out[0] == 'err')
            if good:
                rep.inconc('closure#%d %s: model (%d, %d) did not reproduce through the compiler (%s): engine error' % (which, rn, l, rr, out)); continue
            rep.violation('parse_calc.closure%d.%s.%s' % (which, rn, 'value' if dm else 'undefined'),
                          'constant expression `%s`: C gives %s, the compiler gives %s' % (src, want if dm else 'no value (must be rejected)', out),
                          dict(kind='mir-const', source=src + ' void main() {}', expect=want if dm else 'error', got=out))
        if len(st['samples']) < 6 and kind == 'return' and not (isinstance(ret_.discr, int) and ret_.discr == 1) and feas_rules:
            st['samples'].append(dict(function=name.split('::')[-2] + '::' + name.split('::')[-1], operator=inv.get(feas_rules[0]), result_term=str(z3.simplify(ret_.fields[('Ok', 0)].v))[:120],
                                      verdict='equals the C value for all 2^64 operand pairs whenever C defines it (unsat)'))
    st['rules_covered_closure%d' % which] = sorted(seen_rules)
    st['solver_s'] += time.time() - t0
    # vacuity witness: every operator of the grammar has a feasible returning path
    need = (set(n for n in nums if spec(n, lv, rv) is not None) if which == 1 else {'neg', 'not', 'bnot'})
    if not need <= seen_rules: rep.inconc('closure#%d: no feasible path for operators %s' % (which, sorted(need - seen_rules)))
    return ctx


def check_ternary(rep, st):
    c, a, b = z3.BitVecs('c a b', 32)
    _, t1 = spec('ternary_cond1', c, a); _, t2 = spec('ternary_cond2', t1, b)
    s = z3.Solver(); s.add(t2 != z3.If(c != 0, a, b)); st['queries'] += 1; st['obligations'] += 1
    if s.check() == z3.sat:
        m = s.model(); cv, av, bv = [signed32(m.eval(x, model_completion=True).as_long()) for x in (c, a, b)]
        src = 'const int k = (%d) ? (%d) : (%d);' % (cv, av, bv)
        out = replay_const(src); st['replays'] += 1
        want = av if cv != 0 else bv
        if out == ('ok', want): rep.inconc('ternary composition model did not reproduce')
        else: rep.violation('parse_calc.ternary.sentinel', 'constant expression `%s`: C gives %d, the compiler gives %s (the value 0x7eaddead is used as an in-band marker)' % (src, want, out),
                            dict(kind='mir-const', source=src + ' void main() {}', expect=want, got=out))
    else: st['discharged'] += 1


def check_table(rep, mir, st):
    tabs = pratt.extract(mir)
    t = pratt.table(tabs['calculator'])
    st['calculator_table'] = [[(k, r, a) for k, r, a in lvl] for lvl in tabs['calculator']]
    ops = [o for o in t if o in pratt.C_SYM]
    a, b, c = z3.BitVecs('a b c', 32)
    for o1, o2 in itertools.product(ops, ops):
        st['obligations'] += 1
        g, cg = pratt.grouping(t, o1, o2), pratt.c_grouping(o1, o2)
        if g == cg: st['discharged'] += 1; continue
        # do the two groupings differ in value for some operands (both defined)?
        d1, x1 = spec(o1, a, b); dL, vL = spec(o2, x1, c)
        d2, x2 = spec(o2, b, c); dR, vR = spec(o1, a, x2)
        small = [z3.And(v >= -4, v <= 9) for v in (a, b, c)]
        s = z3.Solver(); s.add(d1, dL, d2, dR, vL != vR, *small); st['queries'] += 1
        if s.check() != z3.sat: st['discharged'] += 1; continue
        m = s.model(); av, bv, cv = [signed32(m.eval(x, model_completion=True).as_long()) for x in (a, b, c)]
        src = 'const int k = %d %s %d %s %d;' % (av, pratt.C_SYM[o1], bv, pratt.C_SYM[o2], cv)
        want = signed32(m.eval(vL if cg == 'L' else vR, model_completion=True).as_long())
        out = replay_const(src); st['replays'] += 1
        if out == ('ok', want): rep.inconc('precedence model for %s/%s did not reproduce' % (o1, o2)); continue
        rep.violation('calculator.table.%s.%s' % (o1, o2), 'constant expression `%s`: C groups it %s and gives %d, the compiler gives %s' % (src, 'left' if cg == 'L' else 'right', want, out),
                      dict(kind='mir-const', source=src + ' void main() {}', expect=want, got=out))
    return tabs


def check_ternary_nesting(rep, st):
    """nested conditionals in every operand position of a constant expression (the calculator handles ?: outside of its operator
    table: the E-MIR obligations cover one level). Expected values computed here."""
    def ev(t):
        if isinstance(t, int): return t
        return ev(t[1]) if ev(t[0]) != 0 else ev(t[2])
    def sh(t, paren): 
        if isinstance(t, int): return str(t)
        s = '%s ? %s : %s' % (sh(t[0], True), sh(t[1], False), sh(t[2], False))     # middle operand needs no parentheses in C, the last one nests to the right
        return '(' + s + ')' if paren else s
    trees = []
    for c1, c2 in itertools.product((0, 1), (0, 1)):
        trees += [(c1, (c2, 5, 6), 7), (c1, 5, (c2, 6, 7)), ((c2, c1, 1 - c1), 5, 6), (c1, (c2, 5, 6), (1 - c2, 7, 8)), (c1, (c2, (c1, 2, 3), 6), 7)]
    for k, t in enumerate(trees):
        src = 'const int k = %s;' % sh(t, False); want = ev(t)
        out = replay_const(src); st['ternary_nesting'] += 1
        if out != ('ok', want):
            rep.violation('ternary.nesting.' + sh(t, False).replace(' ', ''), 'constant expression `%s`: C gives %d, the compiler gives %s' % (src, want, out), dict(kind='mir-const', source=src + ' void main() {}', expect=want, got=out))


def check_sizeof(rep, st):
    """sizeof of declared objects through the real compiler for every variable shape x symbolic-free sizes (concrete cross-check,
    the MIR obligation on parse_sizeof is discharged below)"""
    decls = [('char c', 'c', 1), ('short s', 's', 2), ('int i', 'i', 2), ('char *p', 'p', 2), ('char a[7]', 'a', 7), ('short w[5]', 'w', 10), ('const char t[3] = {1,2,3}', 't', 3),
             ('const short u[4] = {1,2,3,4}', 'u', 8), ('char *tp[3]', 'tp', 6), ('unsigned char ub[255]', 'ub', 255), ('signed short sw[2]', 'sw', 4),
             ('char e5[5]', 'e5[0]', 1), ('short ew[3]', 'ew[1]', 2), ('char *ep[3]', 'ep[2]', 2), ('char e7[7]', 'e7[X]', 1)]
    for d, n, want in decls:
        if '[' in n:
            # the size of one element, in a statement (the constant calculator takes names only)
            src = d + '; char szr; void main() { szr = sizeof(%s); }' % n
            c = common.compile_one(src); st['replays'] += 1; st['obligations'] += 1
            got = None
            if c.status == 'ok':
                m = re.search(r'LDA #(\d+)\s*;? *\n?\s*STA szr', '\n'.join(c.funcs['main']['lines']))
                got = int(m.group(1)) if m else None
            if c.status == 'err' or got == want: st['discharged'] += 1       # rejecting is allowed, a wrong size is not
            else: rep.violation('sizeof.elem.%s' % n, '`%s`: one element is %d bytes, the compiler gives %s' % (src, want, got if c.status == 'ok' else (c.status, c.msg)), dict(kind='mir-const', source=src, expect=want, got=[c.status, got]))
            continue
        # the same object measured inside a statement (the generator has its own sizeof) and inside a local initialiser
        for fk, tpl in (('stmt', '; char szr; void main() { szr = sizeof(%s); }'), ('stmt+1', '; char szr; void main() { szr = sizeof(%s) + 1; }'), ('local-init', '; char szr; void main() { char l = sizeof(%s); szr = l; }')):
            src = d + tpl % n
            c = common.compile_one(src); st['replays'] += 1; st['obligations'] += 1
            got = None; w2 = (want + 1 if fk == 'stmt+1' else want) & 0xff
            if c.status == 'ok':
                m = re.search(r'LDA #(\d+)\s*\n\s*STA (?:szr|main_\w*l\b)', '\n'.join(c.funcs['main']['lines']))
                got = int(m.group(1)) if m else None
            if c.status == 'err' or got == w2: st['discharged'] += 1
            else: rep.violation('sizeof.%s.%s' % (fk, d.replace(' ', '_')), '`%s`: expected %d, the compiler gives %s' % (src, w2, got if c.status == 'ok' else (c.status, c.msg)), dict(kind='mir-const', source=src, expect=w2, got=[c.status, c.msg, c.funcs.get('main', {}).get('lines') if c.status == 'ok' else None]))
        for form in ('const int k = sizeof(%s);', 'const int k = sizeof(%s) + 0;'):
            src = d + '; ' + form % n
            out = replay_const(src); st['replays'] += 1; st['obligations'] += 1
            if out == ('ok', want): st['discharged'] += 1
            else: rep.violation('sizeof.%s' % d.replace(' ', '_'), '`%s`: object size is %d bytes, the compiler gives %s' % (src, want, out), dict(kind='mir-const', source=src + ' void main() {}', expect=want, got=out))
    for ty, want in (('char', 1), ('short', 2), ('int', 2), ('char *', 2), ('unsigned char', 1), ('short int', 2)):
        src = 'const int k = sizeof(%s);' % ty
        out = replay_const(src); st['replays'] += 1; st['obligations'] += 1
        if out == ('ok', want) or out[0] == 'err': st['discharged'] += 1      # rejecting a type spelling is allowed, a wrong size is not
        else: rep.violation('sizeof.type.%s' % ty.replace(' ', '_'), '`%s`: expected %d, the compiler gives %s' % (src, want, out), dict(kind='mir-const', source=src + ' void main() {}', expect=want, got=out))


def fold_programs(tier):
    ks = [0, 1, 2, 3, 5, 7, 8, 100, 127, 128, 200, 255, 256, 300, 1000, 32767]
    ops = ['+', '-', '*', '/', '&', '|', '^', '<<', '>>', '<', '<=', '>', '>=', '==', '!=', '&&', '||']
    for op, l, r in itertools.product(ops, ks, ks):
        if op in ('<<', '>>') and r > 15: continue
        if op == '*' and l * r > 65535: continue
        pid = 'fold/%s/%d/%d' % (op, l, r)
        if tier == 'quick' and not runner.common.hashlib.md5(pid.encode()).hexdigest().startswith(('0', '1', '2', '3', '4')): continue
        for dn in ('va', 'wa'):
            yield mkprog(pid + '/' + dn, [A(V(dn), B(op, C(l), C(r)))])
    # every shift count 0..15 (the generator has separate paths for counts < 8, == 8, > 8) on byte-sized and word-sized constants
    for op, l, r in itertools.product(['<<', '>>'], [1, 3, 0x34, 255, 0x3400, 0x8001], range(16)):
        pid = 'fold/shift/%s/%d/%d' % (op, l, r)
        if tier == 'quick' and r < 8 and not runner.common.hashlib.md5(pid.encode()).hexdigest().startswith(('0', '1', '2', '3', '4', '5', '6', '7')): continue
        for dn in ('va', 'wa'):
            yield mkprog(pid + '/' + dn, [A(V(dn), B(op, C(l), C(r)))])
    yield mkprog('fold/un~/sum/wa', [A(V('wa'), Un('~', B('+', C(1), C(2))))])
    yield mkprog('fold/un-/sum/wa', [A(V('wa'), Un('-', B('+', C(1), C(2))))])
    yield mkprog('fold/un~/sum/ha', [A(V('ha'), Un('~', B('|', C(1), C(2))))])
    for op, k in itertools.product(['-', '~', '!'], ks):
        for dn in ('va', 'wa'):
            yield mkprog('fold/un%s/%d/%s' % (op, k, dn), [A(V(dn), Un(op, C(k)))])
    # negative operands (written as differences, the way they arise in sources): C division truncates toward zero
    for op, (ln, l), r in itertools.product(['/', '*', '+', '-', '<', '<=', '>', '>=', '==', '&', '|'], [('1-8', lambda: B('-', C(1), C(8))), ('0-1', lambda: B('-', C(0), C(1))), ('3-300', lambda: B('-', C(3), C(300))), ('-7', lambda: C(-7)),
                                                                                                   ('2-130', lambda: B('-', C(2), C(130))), ('9', lambda: C(9))], [1, 2, 3, 7, -2, -3]):
        for dn in ('sa', 'ha', 'va', 'wa'):
            yield mkprog('fold/neg/%s/%s/%d/%s' % (op, ln, r, dn), [A(V(dn), B(op, l(), C(r)))])
            if dn in ('sa', 'ha'):
                fi = Func('fi', None, [], Block([A(V(dn), V('l'))], decls=[({'sa': 's8', 'ha': 's16'}[dn], 'l', B(op, l(), C(r)))]))
                yield mkprog('fold/neg-init/%s/%s/%d/%s' % (op, ln, r, dn), [ExprS(Call('fi', []))], funcs=[fi], extra_globals=[dn])


def table_programs(tabs):
    """for the statement and the initialiser operator tables read from the MIR: every operator pair whose grouping differs from C,
    with constants (chosen by z3) for which the two groupings give different values"""
    a, b, c = z3.BitVecs('a b c', 32)
    for tn, key in (('stmt', 'pratt'), ('init', 'pratt_init_value')):
        t = pratt.table(tabs[key])
        ops = [o for o in t if o in pratt.C_SYM and o != 'comma']
        for o1, o2 in itertools.product(ops, ops):
            g, cg = pratt.grouping(t, o1, o2), pratt.c_grouping(o1, o2)
            if g == cg: continue
            d1, x1 = spec(o1, a, b); dL, vL = spec(o2, x1, c)
            d2, x2 = spec(o2, b, c); dR, vR = spec(o1, a, x2)
            s = z3.Solver(); s.add(d1, dL, d2, dR, vL != vR, *[z3.And(v >= 0, v <= 9) for v in (a, b, c)])
            if o1 in ('bls', 'brs'): s.add(b <= 3)
            if o2 in ('bls', 'brs'): s.add(c <= 3)
            if s.check() != z3.sat: continue
            m = s.model(); av, bv, cv = [m.eval(x, model_completion=True).as_long() for x in (a, b, c)]
            e = lambda: Flat([C(av), pratt.C_SYM[o1], C(bv), pratt.C_SYM[o2], C(cv)])
            if tn == 'stmt': yield mkprog('table/stmt/%s.%s' % (o1, o2), [A(V('wa'), e())])
            else:
                fi = Func('fi', None, [], Block([A(V('wa'), V('l'))], decls=[('u16', 'l', e())]))
                yield mkprog('table/init/%s.%s' % (o1, o2), [ExprS(Call('fi', []))], funcs=[fi], extra_globals=['wa'])


def run(tier):
    rep = common.Report('C10', tier, 'other')
    common.build_driver()
    st = collections.defaultdict(int); st['functions'] = []; st['samples'] = []; st['unconfirmed_isolated'] = []
    t0 = time.time()
    for oc in (('on', 'off') if tier == 'thorough' else ('on',)):
        mir = load(oc)
        nums = install_rule_enum()
        check_closure(rep, mir, nums, 1, st)
        check_closure(rep, mir, nums, 2, st)
    check_ternary(rep, st)
    tabs = check_table(rep, mir, st)
    check_sizeof(rep, st)
    check_ternary_nesting(rep, st)
    st2, smp, results = runner.against_reference(rep, list(fold_programs(tier)) + list(table_programs(tabs)), levels=(('O1', ['-O1']),))
    rep.cov = dict(explanation='bounded symbolic execution of the rustc MIR of parse_calc::{closure#1} (infix operators) and {closure#2} (prefix operators), dumped from the current tree; '
                   'z3 decides all 2^64 operand pairs per operator against 32-bit C semantics; the calculator operator table is read from the MIR of compile() and compared with C for every '
                   'ordered operator pair (disagreements get solver-chosen operands); sizeof and statement-level folding are cross-checked through the real compiler (E-TV for folding)',
                   obligations=st['obligations'], discharged=st['discharged'], evaluations=st['paths'] + st2['accepted'], distinct_nontrivial=st['obligations'],
                   functions_encoded=st['functions'], paths=st['paths'], err_propagation_paths=st['err_propagation_paths'], isolated_panic_paths=st['isolated_panic_paths'],
                   unconfirmed_isolated=st['unconfirmed_isolated'][:10], queries=st['queries'] + st2['queries'], solver_s=round(st['solver_s'] + st2['solver_s'], 1), replays_through_compiler=st['replays'],
                   calculator_table=st['calculator_table'], rules_infix=st.get('rules_covered_closure1'), rules_prefix=st.get('rules_covered_closure2'),
                   fold_programs=st2['accepted'], fold_decided=st2['decided'], fold_rejected=st2['rejected_err'], samples=st['samples'] + smp[:2],
                   bounds=dict(operand_width='32 bits, all values', expression_shapes='single operator applications + operator pairs (table); statement folding over 16 boundary constants', loops='none (loop-free closures)',
                               profiles=['overflow-checks on'] + (['overflow-checks off'] if tier == 'thorough' else [])),
                   models_used=sorted(k for k in LIB), trusted_base=['mirsym engine + library models (mirsym/base.py)', 'z3', 'driver replay'])
    rep.assumptions = ['literal parsing (str::parse) is std code outside the encoding', 'as_span/start are uninterpreted (only used for error locations)',
                       'logging is modelled as disabled', '>> on negative values is taken as arithmetic (implementation-defined in C)']
    return rep.finish()

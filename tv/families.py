"""Program families (DESIGN 3.3). Every member has a stable id; enumeration is deterministic."""
import itertools, random, hashlib
from cast import *

V = Var
C = Const
TYPES = {
    'va': 'u8', 'vb': 'u8', 'vc': 'u8', 'vd': 'u8', 'sa': 's8', 'sb': 's8', 'sc': 's8',
    'wa': 'u16', 'wb': 'u16', 'wc': 'u16', 'ha': 's16', 'hb': 's16', 'hc': 's16',
    'ks': 's8', 'ku': 'u8', 'kw': 's16', 'pa': 'pc8', 'pb': 'pc8', 'pw': 'pi16', 'px': 'ps16',
    'arr': ('arr', 'u8', 4), 'brr': ('arr', 'u8', 4), 'sarr': ('arr', 's8', 4), 'warr': ('arr', 'u16', 3), 'pp': 'ptr', 'pq': 'ptr',
}
CONST_INITS = {'ks': -2, 'ku': 200, 'kw': -300}
ORDER = ['ks', 'ku', 'kw', 'pa', 'pb', 'pw', 'px', 'va', 'vb', 'vc', 'vd', 'sa', 'sb', 'sc', 'wa', 'wb', 'wc', 'ha', 'hb', 'hc', 'arr', 'brr', 'sarr', 'warr', 'pp', 'pq']
REGS = ('X', 'Y')
BOUNDARY = [0, 1, 2, 7, 8, 127, 128, 255]
BOUNDARY16 = [0, 1, 255, 256, 257, 0x7fff, 0x8000, 0xffff]


def A(lv, e, op='='): return ExprS(Assign(lv, op, e))
def B(op, l, r): return Bin(op, l, r)


def used_names(nodes):
    names = set()
    def visit_e(e):
        for x in e.walk():
            if isinstance(x, Var): names.add(x.name)
            elif isinstance(x, Index): names.add(x.arr)
            elif isinstance(x, Deref): names.add(x.p)
    def visit_s(s):
        for e in s.exprs(): visit_e(e)
        if isinstance(s, Block):
            for _, _, init in s.decls:
                if init is not None: visit_e(init)
        if isinstance(s, Raw) and isinstance(s.arg, E): visit_e(s.arg)
        for k in s.kids(): visit_s(k)
    for n in nodes:
        visit_s(n) if isinstance(n, S) else visit_e(n)
    return names


HW_PRE = 'unsigned char * const WSYNC = 0x02;\nunsigned char * const COLUBK = 0x09;\nunsigned char * const INPT4 = 0x3c;\n'
HW_ADDRS = {0x02, 0x09, 0x3c, 0x2d}


def mkprog(pid, stmts, funcs=(), extra_globals=(), pre='', quals=None):
    names = used_names(list(stmts) + [f.body for f in funcs])
    globs = [(TYPES[n], n) for n in ORDER if n in names or n in extra_globals]
    p = Prog(pid, globs, list(funcs), Block(stmts), quals=quals, pre=pre)
    p.inits = {n: v for n, v in CONST_INITS.items() if n in names}
    return p


# ------------------------------------------------------------------------------------------------ statement pool
def pool_statements():
    """(tag, stmt factory) - factories so that every program gets fresh nodes"""
    P = []
    def add(tag, f): P.append((tag, f))
    va, vb, vc, sa, sb, wa, wb, ha, hb = (V(n) for n in ('va', 'vb', 'vc', 'sa', 'sb', 'wa', 'wb', 'ha', 'hb'))
    X, Y = V('X'), V('Y')
    ax, ay = Index('arr', V('X')), Index('arr', V('Y'))
    # 8-bit moves and arithmetic
    add('mv', lambda: A(va, vb)); add('mvi', lambda: A(va, C(5))); add('mvi0', lambda: A(vb, C(0)))
    add('add1', lambda: A(va, B('+', vb, C(1)))); add('addv', lambda: A(vc, B('+', va, vb))); add('subv', lambda: A(va, B('-', vb, vc)))
    add('pass', lambda: A(va, vb, '+=')); add('mass', lambda: A(va, C(3), '-=')); add('andi', lambda: A(vb, B('&', va, C(15))))
    add('ori', lambda: A(va, C(128), '|=')); add('xorv', lambda: A(va, vb, '^=')); add('shl1', lambda: A(va, B('<<', vb, C(1))))
    add('shr2', lambda: A(vb, B('>>', va, C(2)))); add('shlass', lambda: A(va, C(1), '<<=')); add('neg', lambda: A(va, Un('-', vb)))
    add('bnot', lambda: A(vb, Un('~', va))); add('not', lambda: A(vc, Un('!', va)))
    add('inc', lambda: ExprS(Inc('++', False, va))); add('preinc', lambda: ExprS(Inc('++', True, vb))); add('dec', lambda: ExprS(Inc('--', False, va)))
    add('postinc_use', lambda: A(vb, Inc('++', False, va))); add('preinc_use', lambda: A(vb, Inc('++', True, va)))
    add('self', lambda: A(va, B('+', va, va)))
    # 16-bit
    add('w_mv', lambda: A(wa, wb)); add('w_from8', lambda: A(wa, va)); add('w_add1', lambda: A(wa, B('+', wb, C(1)))); add('w_pass8', lambda: A(wa, va, '+='))
    add('w_addw', lambda: A(wa, B('+', wb, wa))); add('w_inc', lambda: ExprS(Inc('++', False, wa))); add('w_dec', lambda: ExprS(Inc('--', False, wb)))
    add('w_shl', lambda: A(wa, B('<<', wb, C(1)))); add('w_shrass', lambda: A(wa, C(1), '>>=')); add('w_hi', lambda: A(wa, B('<<', va, C(8))))
    add('w_tolo', lambda: A(va, wa)); add('w_tohi', lambda: A(vb, B('>>', wa, C(8)))); add('w_imm', lambda: A(wb, C(0x1234))); add('w_sub256', lambda: A(wa, C(256), '-='))
    add('h_sext', lambda: A(ha, sa)); add('h_shr', lambda: A(ha, B('>>', hb, C(1)))); add('s_shr', lambda: A(sa, B('>>', sb, C(1)))); add('s_neg', lambda: A(sa, Un('-', sb)))
    # arrays and index registers
    add('ax_st', lambda: A(ax, va)); add('ax_ld', lambda: A(vb, ax)); add('ay_st', lambda: A(ay, vb)); add('ay_ld', lambda: A(va, ay))
    add('a1_st', lambda: A(Index('arr', C(1)), va)); add('a2_ld', lambda: A(vc, Index('arr', C(2)))); add('ax_inc', lambda: ExprS(Inc('++', False, ax)))
    add('ax_pass', lambda: A(ax, C(2), '+=')); add('x_ld', lambda: A(X, va)); add('x_st', lambda: A(va, X)); add('x_inc', lambda: ExprS(Inc('++', False, X)))
    add('y_inc', lambda: ExprS(Inc('++', False, Y))); add('x_dec', lambda: ExprS(Inc('--', False, X))); add('y_x', lambda: A(Y, X)); add('x_y', lambda: A(X, Y))
    add('x_ay', lambda: A(X, ay)); add('y_ax', lambda: A(Y, ax)); add('x_pass', lambda: A(X, C(2), '+=')); add('y_ld', lambda: A(Y, vb)); add('y_imm', lambda: A(Y, C(1)))
    add('x_imm', lambda: A(X, C(2)))
    # pointers
    add('p_st', lambda: A(Index('pp', V('Y')), va)); add('p_ld', lambda: A(vb, Index('pp', V('Y')))); add('p_deref_ld', lambda: A(vc, Deref('pp')))
    add('p_deref_st', lambda: A(Deref('pp'), vb)); add('p_set', lambda: A(V('pp'), V('arr'))); add('p_inc', lambda: ExprS(Inc('++', False, V('pp'))))
    # conditions
    add('if_eq5', lambda: If(B('==', va, C(5)), A(vb, C(1)))); add('if_ne5', lambda: If(B('!=', va, C(5)), A(vb, C(1)), A(vb, C(2))))
    add('if_v', lambda: If(va, A(vb, C(2)), A(vb, C(3)))); add('if_lt', lambda: If(B('<', va, vb), A(vc, C(1)))); add('if_slt', lambda: If(B('<', sa, sb), A(vc, C(1))))
    add('if_weq', lambda: If(B('==', wa, wb), A(va, C(0)))); add('if_wlt', lambda: If(B('<', wa, C(300)), A(va, C(1)))); add('if_x3', lambda: If(B('==', X, C(3)), A(Y, C(1))))
    add('if_and', lambda: If(B('&&', B('==', va, C(5)), vb), A(vc, C(7)))); add('if_or', lambda: If(B('||', va, vb), A(vc, C(0))))
    add('if_ge', lambda: If(B('>=', va, C(128)), A(vb, va))); add('if_le', lambda: If(B('<=', va, vb), A(vc, va), A(vc, vb)))
    add('if_eq0', lambda: If(B('==', va, C(0)), A(vb, C(9)))); add('if_y0', lambda: If(B('==', Y, C(0)), A(va, C(1))))
    add('if_gt3', lambda: If(B('>', va, C(3)), A(vb, C(4)))); add('if_gt3_or', lambda: If(B('||', B('>', va, C(3)), vb), A(vc, C(1))))
    add('if_lt9_and', lambda: If(B('&&', B('<', va, C(9)), vb), A(vc, C(2)))); add('if_le5', lambda: If(B('<=', va, C(5)), A(vb, C(6)), A(vb, C(7))))
    add('if_ge5', lambda: If(B('>=', va, C(5)), A(vb, C(8)))); add('if_xgt', lambda: If(B('>', X, C(1)), A(Y, C(2)))); add('if_eq5_or', lambda: If(B('||', B('==', va, C(5)), vb), A(vc, C(3))))
    add('if_ne5_and', lambda: If(B('&&', B('!=', va, C(5)), B('!=', vb, C(0))), A(vc, C(4)))); add('if_w0', lambda: If(B('==', wa, C(0)), A(va, C(2))))
    add('if_sgt', lambda: If(B('>', sa, C(0)), A(vb, C(1)))); add('mvi3', lambda: A(va, C(3))); add('x_mvi5', lambda: A(X, C(5))); add('if_xeq5', lambda: If(B('==', X, C(5)), A(vb, C(1)), A(vb, C(2))))
    add('if_yne1', lambda: If(B('!=', Y, C(1)), A(vb, C(3))))
    add('set_lt', lambda: A(vc, B('<', va, vb))); add('set_eq', lambda: A(vc, B('==', va, vb))); add('tern', lambda: A(vc, Tern(va, vb, C(3))))
    # loops / switch
    add('do_fill', lambda: Block([A(X, C(0)), DoWhile(Block([A(ax, X), ExprS(Inc('++', False, X))]), B('!=', X, C(4)))]))
    add('for_sum', lambda: For(Assign(Y, '=', C(0)), B('<', Y, C(3)), Inc('++', False, Y), A(va, ay, '+=')))
    add('while_dec', lambda: Block([A(vc, B('&', vc, C(3))), While(vc, Block([ExprS(Inc('--', False, vc)), ExprS(Inc('++', False, va))]))]))
    add('switch', lambda: Switch(va, [(1, [A(vb, C(1)), Break()]), (2, [A(vb, C(2))]), (None, [A(vb, C(3))])]))
    # hardware access
    add('load', lambda: Raw('load', va)); add('store', lambda: Raw('store', vb)); add('strobe', lambda: Raw('strobe', V('WSYNC'))); add('csleep', lambda: Raw('csleep', 4))
    add('asm_nop', lambda: Raw('asm', 'NOP', 1)); add('hw_st', lambda: A(Deref('COLUBK'), va))
    return P


CALLEES = {
    'f1': lambda inline=False: Func('f1', 'u8', [('u8', 'x')], Block([Return(B('+', V('x'), C(1)))]), inline),
    'f2': lambda inline=False: Func('f2', None, [], Block([ExprS(Inc('++', False, V('vc')))]), inline),
    'f3': lambda inline=False: Func('f3', 'u8', [('u8', 'x'), ('u8', 'y')], Block([If(B('<', V('x'), V('y')), Return(V('x'))), Return(V('y'))]), inline),
}


def stable_pick(key, n, k):
    """deterministic thinning: keep key iff hash(key) mod n < k"""
    return int(hashlib.md5(key.encode()).hexdigest()[:8], 16) % n < k


def g_peep(tier):
    pool = pool_statements()
    calls = [('call1', lambda: A(V('vb'), Call('f1', [V('va')]))), ('call2', lambda: ExprS(Call('f2', []))),
             ('call3', lambda: A(V('vc'), Call('f3', [V('va'), V('vb')])))]
    full = pool + calls
    def build(pid, parts):
        stmts = [f() for _, f in parts]
        fn = []
        for t, _ in parts:
            if t.startswith('call'):
                k = 'f' + t[-1]
                if k not in [x.name for x in fn]: fn.append(CALLEES[k]())
        needs_hw = any(t in ('strobe', 'hw_st') for t, _ in parts)
        extra = ['vc'] if any(t == 'call2' for t, _ in parts) else []
        return mkprog(pid, stmts, funcs=fn, pre=HW_PRE if needs_hw else '', extra_globals=extra)
    # singles
    for t, f in full:
        yield build('peep/1/' + t, [(t, f)])
    # ordered pairs
    for (t1, f1), (t2, f2) in itertools.product(full, full):
        pid = 'peep/2/%s+%s' % (t1, t2)
        if tier == 'quick' and not stable_pick(pid, 100, 100): continue
        yield build(pid, [(t1, f1), (t2, f2)])
    # flag/accumulator interplay: set A, clobber the flags without touching A, store the same value again, test it
    va, vb, vc, vd = V('va'), V('vb'), V('vc'), V('vd')
    firsts = [('k0', lambda: C(0)), ('k5', lambda: C(5)), ('vb', lambda: V('vb'))]
    clob = [('X5', lambda: A(V('X'), C(5))), ('Y1', lambda: A(V('Y'), C(1))), ('Xinc', lambda: ExprS(Inc('++', False, V('X')))), ('Ydec', lambda: ExprS(Inc('--', False, V('Y')))),
            ('a1inc', lambda: ExprS(Inc('++', False, Index('arr', C(1))))), ('ifx', lambda: If(B('==', V('X'), C(3)), A(V('Y'), C(1)))), ('winc', lambda: ExprS(Inc('++', False, V('wa')))),
            ('xarr', lambda: A(V('X'), Index('arr', V('Y')))), ('cmpy', lambda: If(B('<', V('Y'), C(2)), ExprS(Inc('++', False, V('sa')))))]
    tests = [('if', lambda: If(V('vc'), A(V('vd'), C(1)))), ('ifeq5', lambda: If(B('==', V('vc'), C(5)), A(V('vd'), C(1)), A(V('vd'), C(2)))),
             ('ifnot', lambda: If(Un('!', V('vc')), A(V('vd'), C(3)))), ('tern', lambda: A(V('vd'), Tern(V('vc'), C(1), C(2)))),
             ('while', lambda: While(V('vc'), Block([A(V('vc'), C(0)), ExprS(Inc('++', False, V('vd')))])))]
    for (fn, f), (cn, cl), (tn, te) in itertools.product(firsts, clob, tests):
        yield mkprog('peep/f/%s+%s+%s' % (fn, cn, tn), [A(V('va'), f()), cl(), A(V('vc'), f()), te()])
        yield mkprog('peep/f2/%s+%s+%s' % (fn, cn, tn), [A(V('vc'), f()), cl(), te()])
    # aliasing through pointers: the same cell read/written by name and through a pointer (or through two index registers)
    rd_p = [('pY', lambda: Index('pp', V('Y'))), ('dp', lambda: Deref('pp'))]
    mods_name = [('inc', lambda: ExprS(Inc('++', False, V('va')))), ('set7', lambda: A(V('va'), C(7))), ('addc', lambda: A(V('va'), V('vd'), '+=')), ('dec', lambda: ExprS(Inc('--', True, V('va'))))]
    mods_ptr = [('pY5', lambda: A(Index('pp', V('Y')), C(5))), ('dpc', lambda: A(Deref('pp'), V('vd'))), ('pYinc', lambda: ExprS(Inc('++', False, Index('pp', V('Y')))))]
    setup = lambda: [A(V('pp'), Un('&', V('va'))), A(V('Y'), C(0))]
    for (rn, rd), (mn, md) in itertools.product(rd_p, mods_name):
        yield mkprog('peep/a/ptr-read/%s/%s' % (rn, mn), setup() + [A(V('vb'), rd()), md(), A(V('vc'), rd())])
        yield mkprog('peep/a/ptr-cond/%s/%s' % (rn, mn), setup() + [If(B('==', rd(), C(3)), Block([md(), If(B('==', rd(), C(4)), A(V('X'), C(1)))]))])
    for mn, md in mods_ptr:
        yield mkprog('peep/a/name-read/%s' % mn, setup() + [A(V('vb'), V('va')), md(), A(V('vc'), V('va'))])
        yield mkprog('peep/a/name-cond/%s' % mn, setup() + [If(B('==', V('va'), C(3)), Block([md(), If(B('==', V('va'), C(5)), A(V('X'), C(1)))]))])
    arr_setup = lambda: [A(V('pp'), V('arr')), A(V('X'), B('&', V('X'), C(3))), A(V('Y'), B('&', V('Y'), C(3)))]
    for mn, md in mods_ptr + [('aXinc', lambda: ExprS(Inc('++', False, Index('arr', V('X'))))), ('aY9', lambda: A(Index('arr', V('Y')), C(9))), ('a1v', lambda: A(Index('arr', C(1)), V('vd')))]:
        for rn, rd in [('aX', lambda: Index('arr', V('X'))), ('aY', lambda: Index('arr', V('Y'))), ('a1', lambda: Index('arr', C(1))), ('pY', lambda: Index('pp', V('Y')))]:
            yield mkprog('peep/a/arr/%s/%s' % (rn, mn), arr_setup() + [A(V('vb'), rd()), md(), A(V('vc'), rd())])
            yield mkprog('peep/a/arr-reg/%s/%s' % (rn, mn), arr_setup() + [A(V('X' if rn != 'aX' else 'vb'), rd()), md(), A(V('vc'), rd())])
    # sandwiches a;b;a (reload / stale-register patterns need the same operand before and after an invalidating statement)
    for (t1, f1), (t2, f2) in itertools.product(full, full):
        pid = 'peep/s/%s+%s+%s' % (t1, t2, t1)
        if tier == 'quick' and not stable_pick(pid, 100, 35): continue
        yield build(pid, [(t1, f1), (t2, f2), (t1, f1)])
    if tier == 'thorough':
        rnd = random.Random(12345)
        for k in range(6000):
            parts = [rnd.choice(full) for _ in range(3)]
            yield build('peep/3/' + '+'.join(t for t, _ in parts), parts)


def g_peep_random(seed, n, depth=4):
    """VERIF_SEED-driven random compositions (sampling, labelled as such in the evidence)"""
    pool = pool_statements()
    rnd = random.Random(seed)
    for k in range(n):
        parts = [rnd.choice(pool) for _ in range(depth)]
        stmts = [f() for _, f in parts]
        needs_hw = any(t in ('strobe', 'hw_st') for t, _ in parts)
        yield mkprog('peep/r%d/%d/' % (seed, k) + '+'.join(t for t, _ in parts), stmts, pre=HW_PRE if needs_hw else '')

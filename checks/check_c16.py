"""C16 Compilation is total (restricted scope, see DESIGN 4/C16).
(a) E-MIR: panic-freedom of the integer/index kernels for all argument values: the feasible panic paths of the calculator closures
    (C10), the offset->line translation (C06), asm() (C04) and the csleep table found by symbolic execution of their MIR are replayed
    through compile() with solver-chosen literals; a reproduced panic is a violation.
(b) enumerated near-valid inputs through the real compiler under catch_unwind + watchdog: every single-token deletion, duplication
    and replacement of a set of base programs, out-of-range literals, division by constant zero in every constant position, void
    values, undeclared / prototype-only names, unbalanced directives, self-referential macros, deep nesting, non-UTF-8, recursion."""
import os, re, itertools, collections, time, hashlib
import common
import families, families2

TOK = re.compile(r'"(?:[^"\\]|\\.)*"|\'(?:[^\'\\]|\\.)\'|[A-Za-z_]\w*|0x[0-9a-fA-F]+|\d+|<<=|>>=|\+\+|--|&&|\|\||<<|>>|<=|>=|==|!=|\+=|-=|&=|\|=|\^=|[-+*/%&|^~!<>=?:;,.(){}\[\]#\\]')
REPL = [';', '(', ')', '{', '}', '0', 'x', '"', '#', '\\', '/*', '*/', '//', '=', ',', '[', ']', 'int', 'if', '-', "'"]


def base_programs():
    B = collections.OrderedDict()
    B['decl'] = 'unsigned char a, b; short s; char t[4]; const char k[2] = {1, 2};\nvoid main() { a = b + 1; s = a; t[X] = k[1]; }\n'
    B['ctl'] = 'char i, j;\nvoid main() { for (i = 0; i < 3; i++) { if (i == 1) continue; j += i; } while (j) j--; do { i++; } while (i < 5); }\n'
    B['switch'] = 'char v, r;\nvoid main() { switch (v) { case 1: r = 1; break; case 2: r = 2; default: r = 3; } }\n'
    B['call'] = 'char g;\nchar f(char x, short y) { char l; l = x; return l + 1; }\ninline void h() { g++; }\nvoid main() { g = f(g, 3); h(); }\n'
    B['ptr'] = 'char *p; char arr[8]; char v;\nvoid main() { p = arr; v = p[Y]; *p = v; p++; v = *p; }\n'
    B['cpp'] = '#define N 3\n#define ADD(x, y) ((x) + (y))\n#ifdef N\nchar a[N];\n#else\nchar b;\n#endif\nvoid main() { a[0] = ADD(N, 1); }\n'
    B['lit'] = 'const char *msg = "hi\\n"; const char *tab[] = {"a", "b"}; char c;\nvoid main() { c = \'x\'; c = msg[Y]; }\n'
    B['hw'] = 'unsigned char * const WSYNC = 0x02; char v;\nvoid main() { strobe(WSYNC); load(v); store(v); csleep(4); asm("NOP", 1); }\n'
    B['cond'] = 'char a, b, c; short w;\nvoid main() { c = a < b ? a : b; if (a && b || !c) w = a << 8; c = (a, b); }\n'
    B['goto'] = 'char a;\nvoid main() { again: a++; if (a < 3) goto again; }\n'
    B['quals'] = 'superchip char sv; aligned(256) const char big[4] = {1,2,3,4}; bank1 const char rb[2] = {5, 6}; signed char sc;\nvoid main() { sv = big[X]; sc = -sv; }\n'
    B['sizeof'] = 'short w[5]; const char n = sizeof(w); char r;\nvoid main() { r = sizeof(w) + n; }\n'
    return B


def incdir():
    import check_c06
    d = os.path.join(common.CACHE, 'c06_inc'); check_c06.write_headers(d); return d


def scheme_specials():
    """programs whose handling depends on the bankswitching scheme (selected by the platform macro): name -> (args, source)"""
    S = collections.OrderedDict()
    for sn, d in (('4K', None), ('3E', '__3E__'), ('3EP', '__3E_PLUS__'), ('SG', '__SUPERGAME__'), ('SGX', '__SUPERGAME_EXFIX__'), ('SG256X', '__SUPERGAME256_EXFIX__'), ('DPC', '__DPC__')):
        a = ['-D' + d] if d else []
        S['scheme/%s/bankcall-no-romselect' % sn] = (a, 'char v;\nbank1 void f() { v++; }\nvoid main() { f(); }\n')
        S['scheme/%s/bankcall' % sn] = (a, 'unsigned char * const ROM_SELECT = 0x3f;\nchar v;\nbank1 void f() { v++; }\nvoid main() { f(); }\n')
        S['scheme/%s/bank-to-bank' % sn] = (a, 'unsigned char * const ROM_SELECT = 0x3f;\nchar v;\nbank1 void f() { v++; }\nbank2 void g() { f(); }\nvoid main() { g(); }\n')
        S['scheme/%s/bank7' % sn] = (a, 'unsigned char * const ROM_SELECT = 0x3f;\nchar v;\nbank7 void f() { v++; }\nbank15 void g() { v--; }\nbank2 void h() { f(); g(); }\nvoid main() { h(); f(); g(); }\n')
        S['scheme/%s/bank-inline' % sn] = (a, 'unsigned char * const ROM_SELECT = 0x3f;\nchar v;\nbank1 inline void f() { v++; }\nvoid main() { f(); }\n')
        S['scheme/%s/bank-value' % sn] = (a, 'unsigned char * const ROM_SELECT = 0x3f;\nchar v;\nbank1 char f(char x) { return x + 1; }\nvoid main() { v = v + f(v); }\n')
        S['scheme/%s/bank-huge' % sn] = (a, 'char v;\nbank99999 void f() { v++; }\nvoid main() { f(); }\n')
        S['scheme/%s/superchip' % sn] = (a, 'superchip char s[4];\nsuperchip short w;\nchar v;\nvoid main() { s[X] = v; w = w + 1; v = s[Y]; s[1]++; }\n')
        S['scheme/%s/bank-ram' % sn] = (a, 'bank1 char s[4];\nchar v;\nvoid main() { s[X] = v; v = s[Y]; s[1]++; }\n')
    return S


def include_specials(d):
    """inputs that include real files (C and assembler) from directory d: name -> (args, source)"""
    S = collections.OrderedDict()
    a = ['-I', d]
    tails = [('warn-last', 'char c;\nvoid main() { c = 300; }'), ('warn-last-nl', 'char c;\nvoid main() { c = 300; }\n'), ('err-last', 'char c;\nvoid main() { c = c * c; }'), ('err-last-nl', 'char c;\nvoid main() { c = c * c; }\n'),
             ('undeclared-last', 'void main() { nope = 1; }'), ('syntax-last', 'char c;\nvoid main() { c = ; }'), ('cpp-last', 'void main() {}\n#if NOPE'), ('ok', 'char c;\nvoid main() { c = 1; }\n'),
             ('warn-perf-last', 'char t[4]; char c;\nvoid main() { c = t[c + 1]; }')]
    for inc in ('a_ok.inc', 'h_ok.h', 'a_ok.inc"\n#include "h_ok.h', 'h_ok.h"\n#include "a_ok.inc', 'a_ok.inc"\n#include "a_ok.inc'):
        for tn, tail in tails:
            S['include/%s/%s' % (inc.replace('"\n#include "', '+'), tn)] = (a + (['-W', 'all'] if 'perf' in tn else []), '#include "%s"\n%s' % (inc, tail))
            S['include-late/%s/%s' % (inc.replace('"\n#include "', '+'), tn)] = (a, 'char z;\n#include "%s"\n%s' % (inc, tail))
    S['include/asm-only'] = (a, '#include "a_ok.inc"'); S['include/asm-then-eof-splice'] = (a, '#include "a_ok.inc"\nchar c; \\\n')
    return S


def specials():
    S = collections.OrderedDict()
    S['empty'] = b''; S['space'] = b' \n\t'; S['nul'] = b'char a;\0void main() {}'; S['nonutf8'] = b'char a\xff\xfe; void main() {}'; S['nonutf8-comment'] = b'// \xc3\x28\nvoid main() {}\n'
    S['nonutf8-string'] = b'const char *s = "\xff"; void main() {}\n'
    for lit in ('99999999999', '2147483648', '-2147483649', '0x100000000', '0xfffffffff', '077777777777777', '--5', '0x', '1e5', '08'):
        S['lit/init/' + lit] = 'const int k = %s;\nvoid main() {}\n' % lit
        S['lit/stmt/' + lit] = 'char c;\nvoid main() { c = %s; }\n' % lit
        S['lit/size/' + lit] = 'char a[%s];\nvoid main() {}\n' % lit
        S['lit/case/' + lit] = 'char c;\nvoid main() { switch (c) { case %s: c = 1; } }\n' % lit
        S['lit/asm/' + lit] = 'void main() { asm("NOP", %s); }\n' % lit
        S['lit/csleep/' + lit] = 'void main() { csleep(%s); }\n' % lit
    # numbers in other syntactic positions: array sizes of parameters, bank numbers, the page-number idiom (tab >> 8) + k
    for n, t in (('param-neg-array', 'void f(char a[-1], char b) { }\nvoid main() { f(0, 1); }\n'), ('param-neg-array2', 'char g(char b, short w[-3]) { return b; }\nvoid main() { g(1, 0); }\n'),
                 ('bank-huge-var', 'bank99999999999 char x;\nvoid main() { }\n'), ('bank-huge-func', 'bank99999999999 void f() { }\nvoid main() { f(); }\n'), ('bank-huge-const', 'bank4294967296 const char t[2] = {1, 2};\nvoid main() { }\n'),
                 ('page-plus-huge', 'const char tab[2]={1,2}; char x; void main(){ x = (tab >> 8) + 16777216; }\n'), ('page-minus-huge', 'const char tab[2]={1,2}; char x; void main(){ x = (tab >> 8) - 16777216; }\n'),
                 ('page-plus-max', 'const char tab[2]={1,2}; char x; void main(){ x = (tab >> 8) + 2147483647; }\n'), ('page-minus-min', 'const char tab[2]={1,2}; char x; void main(){ x = (tab >> 8) - (0 - 2147483647 - 1); }\n'),
                 ('utf8-char-const', "char x;\nvoid main() { x = '\u20ac'; x = '\u20ac'; q;}\n"), ('utf8-comment-asm', 'char x; // \u00e9\u00e9\u00e9\u00e9\u00e9\u00e9\nvoid main() { x = 1; q; }')):
        S['w5/' + n] = t
    for e in ('1/0', '5/(2-2)', '1/0+1', '(1/0)', '1 ? 1/0 : 2', '1 << 40', '1 << -1', '100000*100000', '-2147483647-2', '0x7fffffff+1', '1 >> 99', '!(1/0)', '-(1/0)', '~(1/0)'):
        S['const/init/' + e] = 'const int k = %s;\nvoid main() {}\n' % e
        S['const/size/' + e] = 'char a[%s];\nvoid main() {}\n' % e
        S['const/stmt/' + e] = 'char c;\nvoid main() { c = %s; }\n' % e
        S['const/align/' + e] = 'aligned(%s) const char t[2] = {1, 2};\nvoid main() {}\n' % e
        S['const/asm/' + e] = 'void main() { asm("NOP", %s); }\n' % e
        S['const/elem/' + e] = 'const char t[2] = {%s, 2};\nvoid main() {}\n' % e
        S['const/index/' + e] = 'char t[4]; char c;\nvoid main() { c = t[%s]; }\n' % e
        S['const/shift/' + e] = 'char c;\nvoid main() { c = c << (%s); }\n' % e
    S['void/value'] = 'char c;\nvoid f() {}\nvoid main() { c = f(); }\n'; S['void/arith'] = 'char c;\nvoid f() {}\nvoid main() { c = f() + 1; }\n'; S['void/cond'] = 'void f() {}\nvoid main() { if (f()) X = 1; }\n'
    S['void/return'] = 'void f() { return 1; }\nvoid main() { f(); }\n'; S['nonvoid/noreturn'] = 'char f() { }\nchar c;\nvoid main() { c = f(); }\n'; S['nonvoid/bare-return'] = 'char f() { return; }\nvoid main() { f(); }\n'
    S['undeclared/var'] = 'void main() { nope = 1; }\n'; S['undeclared/func'] = 'void main() { nope(); }\n'; S['undeclared/array'] = 'char c;\nvoid main() { c = nope[1]; }\n'; S['undeclared/ptr'] = 'char c;\nvoid main() { c = *nope; }\n'
    S['proto/only'] = 'void f();\nvoid main() { f(); }\n'; S['proto/inline'] = 'inline void f();\nvoid main() { f(); }\n'; S['proto/args'] = 'char f(char x);\nchar c;\nvoid main() { c = f(1); }\n'
    S['proto/mismatch'] = 'void f(char a);\nvoid f() {}\nvoid main() { f(); }\n'; S['call/too-many'] = 'void f(char a) {}\nvoid main() { f(1, 2); }\n'; S['call/too-few'] = 'void f(char a, char b) {}\nvoid main() { f(1); }\n'
    S['call/var'] = 'char v;\nvoid main() { v(); }\n'; S['call/interrupt'] = 'void interrupt i() {}\nvoid main() { i(); }\n'; S['nomain'] = 'char a;\n'; S['main-args'] = 'void main(char a) {}\n'
    S['recursion'] = 'char n;\nvoid f() { if (n) { n--; f(); } }\nvoid main() { f(); }\n'; S['mutual'] = 'char n;\nvoid g();\nvoid f() { if (n) { n--; g(); } }\nvoid g() { f(); }\nvoid main() { f(); }\n'
    S['inline-recursion'] = 'char n;\ninline void f() { if (n) { n--; f(); } }\nvoid main() { f(); }\n'; S['inline-mutual'] = 'inline void g();\ninline void f() { g(); }\ninline void g() { f(); }\nvoid main() { f(); }\n'
    for d in ('#if 1\n', '#ifdef X\n', '#else\n', '#endif\n', '#elif 1\n', '#if\n', '#ifdef\n', '#define\n', '#undef\n', '#include\n', '#include <\n', '#include "\n', '#include "nonexistent.h"\n', '#error\n', '#bogus\n', '#\n', '# define X\n',
              '#if 1 +\n', '#if (1\n', '#if 1 == \n', '#if !\n', '#if X\n', '#define F(\n', '#define F(a\n', '#define F(a,) a\n', '#define F() 1\n', '#undef NOPE\n', '#if 0\n#else\n#else\n#endif\n', '#if 0\n#elif\n#endif\n'):
        S['directive/' + d.replace('\n', '|')] = d + 'char a;\nvoid main() {}\n'
        S['directive-late/' + d.replace('\n', '|')] = 'char a;\nvoid main() {}\n' + d
    for m in ('#define A A', '#define A A+1', '#define A B\n#define B A', '#define F(x) F(x)', '#define F(x) x F(x)', '#define A(x) A', '#define A'):
        S['selfmacro/' + m.replace('\n', '|')] = m + '\nchar c;\nvoid main() { c = A; c = F(1); }\n'
    S['selfmacro/double'] = '#define Q Q Q\nchar c;\nvoid main() { c = Q; }\n'; S['selfmacro/triple-args'] = '#define F(x) F(x) F(x) F(x)\nchar c;\nvoid main() { c = F(1); }\n'
    S['proto/as-value'] = 'char c;\nvoid f();\nvoid main() { c = f; }\n'; S['func/as-value'] = 'char c;\nvoid f() {}\nvoid main() { c = f; }\n'; S['proto/as-index'] = 'char t[2];\nvoid f();\nvoid main() { t[f] = 1; }\n'
    # constructs that open a loop / switch context and leave it early, followed by a stray break / continue (same and next function)
    opens = [('empty-switch', 'switch (a) { }'), ('default-only', 'switch (a) { default: b = 1; }'), ('empty-while', 'while (a--) ;'), ('empty-for', 'for (a = 0; a < 3; a++) ;'), ('empty-do', 'do ; while (a--);'),
             ('switch-nested', 'switch (a) { case 1: switch (b) { } break; }'), ('while-break', 'while (a) { break; }'), ('for-return', 'for (;;) { return; }'), ('do-continue', 'do { continue; } while (a--);')]
    for (on, o), (sn, s) in itertools.product(opens, [('break', 'break;'), ('if-break', 'if (a) break;'), ('if-break-block', 'if (a) { break; }'), ('continue', 'continue;'), ('if-continue', 'if (a) continue;'), ('else-break', 'if (a) b = 1; else break;')]):
        S['loopstack/%s/%s' % (on, sn)] = 'char a, b;\nvoid main() { %s %s }\n' % (o, s)
        S['loopstack-next/%s/%s' % (on, sn)] = 'char a, b;\nvoid f() { %s }\nvoid main() { f(); %s }\n' % (o, s)
    # the macro table is kept in batches of 100: function-like macros at the batch boundary, then uses and #undef
    for n, k in itertools.product((99, 100, 101, 150, 201), (97, 98, 99, 100, 101, 199)):
        if k >= n: continue
        defs = ''.join(('#define M%d(a) (a + %d)\n' % (j, j)) if j == k else ('#define M%d %d\n' % (j, j % 7)) for j in range(n))
        S['macrobatch/%d/fn@%d/use' % (n, k)] = defs + 'char c;\nvoid main() { c = M5 + M%d + M%d(2); }\n' % (n - 1, k)
        S['macrobatch/%d/fn@%d/undef' % (n, k)] = defs + '#undef M3\n#undef M%d\nchar c;\nvoid main() { c = M5 + M%d; }\n' % (k, n - 1 if k != n - 1 else 0)
        S['macrobatch/%d/fn@%d/redefine' % (n, k)] = defs + '#undef M%d\n#define M%d 1\n#define MX(q) (q)\nchar c;\nvoid main() { c = MX(M%d) + M%d; }\n' % (k, k, k, n - 1 if k != n - 1 else 0)
    # rejected or accepted, never a panic: names that are not variables where a variable is expected, void values for X / Y,
    # negative sizes, *= and /=, a literal placeholder typed by hand, repeated macro parameters
    for nm, src in [('strobe-reg', 'void main() { strobe(X); }'), ('strobe-fn', 'void f() {}\nvoid main() { strobe(f); }'), ('strobe-undeclared', 'void main() { strobe(nope); }'),
                    ('neg-array-local', 'void main() { short a[-1]; a[0] = 1; }'), ('neg-array-global', 'short a[-1];\nvoid main() { }'), ('neg-array-expr', 'char a[2 - 5];\nvoid main() { }'), ('zero-array', 'char a[0];\nvoid main() { }'),
                    ('Y=void', 'void f() {}\nvoid main() { Y = f(); }'), ('X=void', 'void f() {}\nvoid main() { X = f(); }'), ('arr=void', 'char t[2];\nvoid f() {}\nvoid main() { t[X] = f(); }'),
                    ('mulass', 'char x;\nvoid main() { x *= 2; }'), ('divass', 'char x;\nvoid main() { x /= 2; }'), ('mulass16', 'short x;\nvoid main() { x *= 4; }'), ('mulass-reg', 'void main() { X *= 2; }'),
                    ('placeholder', 'char *s;\nvoid main() { s = @7@; }'), ('placeholder0', 'char *s;\nvoid main() { s = @0@; }'), ('placeholder-mixed', 'char *s;\nvoid main() { s = "a"; s = @1@; }'),
                    ('dup-param', '#define F(a,a) a\nchar c;\nvoid main() { c = F(1,2); }'), ('empty-param', '#define F(a,,b) a\nchar c;\nvoid main() { c = 1; }'), ('paren-param', '#define F((a) a\nchar c;\nvoid main() { c = 1; }'),
                    ('continue-switch-noloop', 'char c;\nvoid main() { switch (c) { case 1: continue; } }'), ('ifcontinue-switch-noloop', 'char c;\nvoid main() { switch (c) { case 1: if (c) continue; } }'),
                    ('ifcontinue-switch-do', 'char a, b, x;\nvoid main() { do { switch (a) { case 1: if (b) continue; case 2: b = 3; break; } x++; } while (x < 10); }'),
                    ('ptr-to-short', 'char a;\n\n\nshort *p;\nvoid main() {}'), ('sizeof-elem', 'char t[5]; char c;\nvoid main() { c = sizeof(t[0]); }')]:
        S['w4/' + nm] = src
    # inline functions whose bodies contain every kind of branch (the copy made for the caller renames them)
    for nm, body in [('scmp', 'if (s < 0) v = 1;'), ('scmp-ge', 'if (s >= 0) v = 1; else v = 2;'), ('wcmp', 'if (w > 300) v = 1;'), ('wcmp-le', 'if (w <= h) v = 1;'), ('signext', 'h = s;'), ('signext-add', 'h = h + s;'),
                     ('loop', 'while (v) v--;'), ('for', 'for (X = 0; X != 4; X++) v++;'), ('switch', 'switch (v) { case 1: v = 2; break; default: v = 3; }'), ('ret', 'if (v) return; v = 1;'),
                     ('tern', 'v = s < 0 ? 1 : 2;'), ('land', 'if (v && s) v = 0;'), ('do', 'do { v++; } while (v < 3);')]:
        S['w4/inline-body/' + nm] = 'signed char s; short w, h; char v;\ninline void g() { %s }\nvoid main() { g(); v++; g(); }\n' % body
        S['w4/inline-nested/' + nm] = 'signed char s; short w, h; char v;\ninline void g() { %s }\ninline void f() { g(); if (v) g(); }\nvoid main() { f(); }\n' % body
    for nm, decl in [('array-then-scalar', 'char buf[4], n;'), ('scalar-then-array', 'char n, buf[4];'), ('two-arrays', 'char a[2], b[3];'), ('short-array-then-scalar', 'short w[2], n;'), ('init-then-array', 'char n = 1, buf[2];'),
                     ('ptr-then-scalar', 'char *p, n;')]:
        S['w4/local-decl/' + nm] = 'char g;\nvoid f() { %s n = 1; g = n; }\nvoid main() { f(); }\n' % decl
    S['continue-in-switch-in-do'] = 'char a, b;\nvoid main() { do { switch (a) { case 1: continue; default: b = 1; } a++; } while (a < 3); }\n'
    S['break-in-switch-in-for'] = 'char a, b;\nvoid main() { for (a = 0; a < 3; a++) { switch (a) { case 1: break; default: continue; } b++; } }\n'
    S['macros150'] = ''.join('#define M%d %d\n' % (k, k) for k in range(150)) + '#undef M120\n#undef M3\nchar c;\nvoid main() { c = M5 + M149; }\n'
    S['macros150-undef-all'] = ''.join('#define M%d %d\n' % (k, k) for k in range(150)) + ''.join('#undef M%d\n' % k for k in range(149, -1, -1)) + 'void main() {}\n'
    S['macro-redef'] = '#define A 1\n#define A 2\nvoid main() {}\n'; S['macro-args-mismatch'] = '#define F(a, b) a\nchar c;\nvoid main() { c = F(1); }\n'
    S['deep-parens'] = 'char c;\nvoid main() { c = ' + '(' * 300 + '1' + ')' * 300 + '; }\n'; S['deep-blocks'] = 'void main() ' + '{' * 300 + '}' * 300 + '\n'; S['deep-unary'] = 'char c;\nvoid main() { c = ' + '-' * 301 + 'c; }\n'
    S['deep-if'] = 'char c;\nvoid main() { ' + 'if (c) ' * 200 + 'c = 1; }\n'; S['long-expr'] = 'char c;\nvoid main() { c = ' + ' + '.join(['c'] * 400) + '; }\n'; S['long-line'] = 'char ' + ', '.join('v%d' % k for k in range(2000)) + ';\nvoid main() {}\n'
    S['many-locals'] = 'void main() { ' + ' '.join('char l%d;' % k for k in range(300)) + ' }\n'; S['unterminated-comment'] = 'char a; /* never closed\nvoid main() {}\n'; S['unterminated-string'] = 'const char *s = "abc;\nvoid main() {}\n'
    S['unterminated-char'] = "char c;\nvoid main() { c = 'a; }\n"; S['empty-char'] = "char c;\nvoid main() { c = ''; }\n"; S['crlf'] = 'char a;\r\nvoid main() { a = 1; }\r\n'; S['splice-eof'] = 'char a; \\\n'; S['only-splice'] = '\\\n'
    S['err-then-splice-eof/cpp'] = 'char a;\n#error x \\\n'; S['err-then-splice-eof/syntax'] = 'char a;\nchar broken = ; \\\n'; S['err-then-splice-eof/if'] = 'char a;\n#if NOPE \\\n'
    S['err-no-newline-eof'] = 'char a;\nchar broken = ;'; S['err-last-line'] = 'char a;\nchar broken = ;\n'
    S['zero-array'] = 'char a[0];\nvoid main() {}\n'; S['neg-array'] = 'char a[-1];\nvoid main() {}\n'; S['huge-array'] = 'char a[2000000000];\nvoid main() {}\n'; S['init-too-long'] = 'const char a[2] = {1,2,3};\nvoid main() {}\n'
    S['dup-label'] = 'void main() { l: X = 1; l: X = 2; goto l; }\n'; S['goto-undefined'] = 'void main() { goto nowhere; }\n'; S['break-outside'] = 'void main() { break; }\n'; S['continue-outside'] = 'void main() { continue; }\n'
    S['case-dup'] = 'char c;\nvoid main() { switch (c) { case 1: c = 2; case 1: c = 3; } }\n'; S['csleep-1'] = 'void main() { csleep(1); }\n'; S['csleep-neg'] = 'void main() { csleep(-3); }\n'; S['asm-neg'] = 'void main() { asm("NOP", -1); }\n'
    S['ptr-types'] = 'short *p; char **q; char *r[2]; short *s[2];\nvoid main() {}\n'; S['addr-of'] = 'char a; char *p;\nvoid main() { p = &a; }\n'; S['deref-const'] = 'char c;\nvoid main() { c = *5; }\n'; S['index-const'] = 'char c;\nvoid main() { c = 5[c]; }\n'
    S['assign-const'] = 'void main() { 5 = 3; }\n'; S['inc-const'] = 'void main() { 5++; }\n'; S['sizeof-undeclared'] = 'const char k = sizeof(nope);\nvoid main() {}\n'; S['bank-huge'] = 'bank99999999999 char a;\nvoid main() {}\n'
    return S


def mutations(tier):
    for name, src in base_programs().items():
        toks = [(m.start(), m.end()) for m in TOK.finditer(src)]
        for k, (a, b) in enumerate(toks):
            cand = [('del', src[:a] + src[b:]), ('dup', src[:b] + ' ' + src[a:b] + src[b:])]
            for r in REPL: cand.append(('rep:' + r, src[:a] + r + src[b:]))
            for what, s in cand:
                pid = 'mut/%s/%d/%s' % (name, k, what)
                if tier == 'quick' and int(hashlib.md5(pid.encode()).hexdigest()[:4], 16) % 100 >= 30: continue
                yield pid, s
        for k in range(0, len(src), 3 if tier == 'quick' else 1):
            yield 'trunc/%s/%d' % (name, k), src[:k]


def run(tier):
    rep = common.Report('C16', tier, 'other')
    common.build_driver()
    st = collections.defaultdict(int); locs = collections.Counter()
    # (a) panic paths of the kernels found by symbolic execution (the obligations are those of the C10 and C06 checks, re-run here)
    import check_c10, check_c06
    from base import load, install_rule_enum
    mir = load('on'); nums = install_rule_enum()
    sub = common.Report('C16', tier, 'other'); sub.known = []
    s10 = collections.defaultdict(int); s10['functions'] = []; s10['samples'] = []; s10['unconfirmed_isolated'] = []
    check_c10.check_closure(sub, mir, nums, 1, s10); check_c10.check_closure(sub, mir, nums, 2, s10)
    s06 = collections.defaultdict(int); s06['functions'] = []; s06['samples'] = []; s06['candidates'] = []
    check_c06.check_offsets(sub, mir, 'quick', s06); check_c06.replay_offsets(sub, s06)
    for key, what, replay in sub.violations:
        if 'panic' in what: rep.violation('kernel.' + key, what, replay)
    for w in sub.inconclusive: rep.inconc(w)
    st['kernel_paths'] = s10['paths'] + s06['paths']; st['kernel_queries'] = s10['queries'] + s06['queries']; st['kernel_obligations'] = s10['obligations'] + s06['obligations']
    st['isolated'] = s10['unconfirmed_isolated'][:6]
    # (b) enumerated near-valid inputs
    reqs = [(pid, [], s) for pid, s in mutations(tier)] + [('special/' + n, ['-I', '/nonexistent'], s) for n, s in specials().items()] + \
           [('special/' + n, ['-I', '/nonexistent'] + a, s) for n, (a, s) in scheme_specials().items()] + \
           [('special/' + n, a, s) for n, (a, s) in include_specials(incdir()).items()]
    # listing option: statements on the last line, with and without a final newline, one-line programs
    for n, s in base_programs().items():
        one = ' '.join(l for l in s.split('\n') if not l.startswith('#'))
        head = '\n'.join(l for l in s.split('\n') if l.startswith('#'))
        for k, t in enumerate((s, s.rstrip('\n'), head + '\n' + one + '\n', head + '\n' + one)):
            reqs.append(('listing/%s/%d' % (n, k), ['--insert-code'], t)); reqs.append(('listing-O0/%s/%d' % (n, k), ['--insert-code', '-O0'], t))
    t0 = time.time()
    R = common.compile_many(reqs, timeout_ms=4000)
    st['inputs'] = len(reqs); st['compile_wall_s'] = round(time.time() - t0, 1)
    srcs = {i: s for i, a, s in reqs}
    for rid, c in R.items():
        st['status_' + str(c.status)] += 1
        if c.status in ('ok', 'err'):
            if c.status == 'err' and c.err and c.err.get('kind') in ('Syntax', 'Compiler'):
                # the location must lie inside the input
                txt = srcs[rid]; nl = b'\n' if isinstance(txt, bytes) else '\n'
                nlines = txt.count(nl) + (0 if txt.endswith(nl) or len(txt) == 0 else 1)
                if not (0 <= c.err.get('line', 0) <= max(nlines, 1)) and c.err.get('filename') in ('stdin',):
                    rep.violation('location:' + rid, 'input %s: error located on line %s of a %d-line input' % (rid, c.err.get('line'), nlines), dict(kind='total', source=srcs[rid] if isinstance(srcs[rid], str) else srcs[rid].decode('latin1'), got=c.err))
            continue
        locs['%s @ %s' % ((c.msg or c.status)[:70], (c.loc or '').replace('/repo/', ''))] += 1
        src = srcs[rid]
        rep.violation('crash:' + rid, 'input %s: compile() %s (%s at %s)' % (rid, c.status, (c.msg or '')[:120], c.loc), dict(kind='total', source=src if isinstance(src, str) else src.decode('latin1'), args=[], got=[c.status, c.msg, c.loc]))
    rep.cov = dict(explanation='(a) feasible panic paths of parse_calc::{closure#1,#2} and of syntax_error/compiler_error/warning found by symbolic execution of their MIR (all argument values) and replayed through compile() with solver-chosen literals; '
                   '(b) enumerated near-valid inputs under catch_unwind and a 4 s watchdog: single-token deletions, duplications and replacements (22 replacement tokens) and truncations of 12 base programs; 500+ special inputs '
                   '(out-of-range literals and undefined constant expressions in every constant position, void values, undeclared and prototype-only names, unbalanced and malformed directives, self-referential macros, 150 macros + #undef, deep nesting, '
                   'non-UTF-8 bytes, recursion, labels, empty inputs); a panic, abort, stack overflow or time-out is a violation, as is an error located outside the input',
                   obligations=st['kernel_obligations'] + st['inputs'], discharged=st['kernel_obligations'] + st['status_ok'] + st['status_err'], evaluations=st['inputs'] + st['kernel_paths'], distinct_nontrivial=st['inputs'],
                   inputs=st['inputs'], accepted=st['status_ok'], rejected_with_error=st['status_err'], panics=st['status_panic'], timeouts=st['status_timeout'], crashes=st['status_crash'], panic_sites=dict(locs.most_common(25)),
                   kernel_paths=st['kernel_paths'], kernel_queries=st['kernel_queries'], isolated=st['isolated'], compile_wall_s=st['compile_wall_s'],
                   samples=[dict(input=reqs[0][2][:200], verdict=R[reqs[0][0]].status), dict(input=str(reqs[-1][2])[:200], verdict=R[reqs[-1][0]].status)],
                   scope='the property quantifies over all byte sequences; the parser is generated code and the preprocessor is regex driven, neither is encoded: the solver part covers the integer/index kernels only, the rest is an enumerated family',
                   trusted_base=['mirsym (see C10, C06)', 'z3', 'driver catch_unwind + watchdog thread'])
    rep.assumptions = ['a watchdog time-out of 4 s is taken as non-termination', 'stack depth of the driver thread is 64 MB']
    return rep.finish()

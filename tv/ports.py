"""Split-port cartridge RAM model: separate read and write addresses for the same cell; reading the write port,
writing the read port or a read-modify-write cycle on either is a fault."""
import z3
from sym6502 import is_c, simp, bv16


class Ports:
    def __init__(self, regions):
        """regions: list of (name, cell_lo, cell_hi, read_off, write_off): a cell c is read at c+read_off and written at c+write_off"""
        self.regions = regions

    def _in(self, a, lo, hi):
        if is_c(a): return lo <= a <= hi
        return simp(z3.And(z3.UGE(a, bv16(lo)), z3.ULE(a, bv16(hi))))

    def _fault(self, s, cond, text, pc):
        if cond is False: return
        s.faults.append((cond, text, pc))

    def _sub(self, a, cond, off):
        if off == 0 or cond is False: return a
        if is_c(a): return (a - off) & 0xffff if cond is True else a
        if cond is True: return simp(a - bv16(off))
        return simp(z3.If(cond, a - bv16(off), a))

    def read(self, mach, s, a, rmw):
        for name, lo, hi, ro, wo in self.regions:
            in_r = self._in(a, lo + ro, hi + ro)
            in_w = self._in(a, lo + wo, hi + wo)
            self._fault(s, in_w, 'read access to the write port of %s RAM' % name, s.pc)
            if rmw: self._fault(s, in_r, 'read-modify-write instruction on %s RAM' % name, s.pc)
            a = self._sub(a, in_r, ro)
        return a

    def write(self, mach, s, a, rmw):
        for name, lo, hi, ro, wo in self.regions:
            in_r = self._in(a, lo + ro, hi + ro)
            in_w = self._in(a, lo + wo, hi + wo)
            if not rmw: self._fault(s, in_r, 'write access to the read port of %s RAM' % name, s.pc)
            a = self._sub(a, in_w, wo)
        return a


def for_scheme(scheme):
    # cells live at the symbol address the mini-linker assigns (superchip: $1000 = write port; 3E/3E+: $1000 = read port)
    if scheme == '3E': return Ports([('3E', 0x1000, 0x13ff, 0, 0x400)])
    if scheme == '3EP': return Ports([('3E+', 0x1000, 0x11ff, 0, 0x200)])
    return Ports([('superchip', 0x1000, 0x107f, 0x80, 0)])

"""Development-time tool: materialise /verif/seeded/<id>/ from confirmed candidates + selftest logs (/tmp/mx_<id>.log)."""
import os, re, json, glob, shutil, sys
VERIF = os.path.dirname(os.path.dirname(os.path.abspath(__file__)))
cand = os.path.join(VERIF, "seeded", sys.argv[1] if len(sys.argv) > 1 else "_candidates")
rows = []
for d in sorted(glob.glob(cand + '/*/')):
    name = os.path.basename(d.rstrip('/'))
    cj = os.path.join(d, 'confirm.json')
    if not os.path.exists(cj): continue
    conf = json.load(open(cj))
    if not conf.get('confirmed'): continue
    caught = {}
    for lg in [os.path.join('/tmp', 'mx_%s.log' % name)] + sorted(glob.glob('/tmp/mx2_%s*.log' % name)):
        if not os.path.exists(lg): continue
        for l in open(lg):
            m = re.match(r'%s (C\d+) exit (\d+) violations (\d+)\s*(.*)' % re.escape(name), l)
            if m: caught[m.group(1)] = dict(exit=int(m.group(2)), violations=int(m.group(3)), first=m.group(4).strip()[:240])
    readme = open(os.path.join(d, 'README.md')).read() if os.path.exists(os.path.join(d, 'README.md')) else ''
    needs = ''
    m = re.search(r'(?is)(?:what is needed|needs?|to manifest|manifests?|trigger)[^\n]*\n+(.{40,700}?)(?:\n\n|\n#|\Z)', readme)
    if m: needs = re.sub(r'\s+', ' ', m.group(1)).strip()
    if not needs: needs = re.sub(r'\s+', ' ', readme[:500])
    out = os.path.join(VERIF, 'seeded', name)
    os.makedirs(out, exist_ok=True)
    for f in ('patch.diff', 'demo.rs', 'README.md', 'patch_orig.diff'):
        if os.path.exists(os.path.join(d, f)): shutil.copy(os.path.join(d, f), os.path.join(out, f))
    prop = name.split('_')[0]
    meta = dict(id=name, breaks_property=prop, needs_to_manifest=needs, source='independent sub-agent given only the property text and a private worktree',
                ported_to_repaired_tree=os.path.exists(os.path.join(d, 'patch_orig.diff')),
                confirmed_by_me=dict(tool='lib/confirm_seeded.py (scratch worktree of /repo, removed afterwards)', steps=conf['ran'], demo_placement=conf.get('demo_placement'), demo_cmd=conf.get('demo_cmd')),
                checks_run=dict(tool='./check selftest seeded/%s <ID>... (patch applied to a scratch worktree, VERIF_REPO points the checks at it)' % name, results=caught),
                caught_by=sorted(k for k, v in caught.items() if v['exit'] == 1))
    json.dump(meta, open(os.path.join(out, 'meta.json'), 'w'), indent=1)
    rows.append((name, prop, caught))
print(len(rows), 'seeded changes written'); import subprocess; subprocess.run([sys.executable, os.path.join(VERIF, 'lib', 'mkmatrix.py')])

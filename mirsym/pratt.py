"""Extraction of the three PrattParser tables from the MIR of compile::compile (straight-line constant data)."""
import re

C_LEVEL = {'mul': 13, 'div': 13, 'add': 12, 'sub': 12, 'bls': 11, 'brs': 11, 'lt': 10, 'lte': 10, 'gt': 10, 'gte': 10, 'eq': 9, 'neq': 9,
           'and': 8, 'xor': 7, 'or': 6, 'land': 5, 'lor': 4, 'ternary_cond1': 3, 'ternary_cond2': 3,
           'assign': 2, 'mass': 2, 'pass': 2, 'andass': 2, 'orass': 2, 'xorass': 2, 'blsass': 2, 'brsass': 2, 'comma': 1}
C_ASSOC = {13: 'Left', 12: 'Left', 11: 'Left', 10: 'Left', 9: 'Left', 8: 'Left', 7: 'Left', 6: 'Left', 5: 'Left', 4: 'Left', 3: 'Right', 2: 'Right', 1: 'Left'}
C_SYM = {'mul': '*', 'div': '/', 'add': '+', 'sub': '-', 'bls': '<<', 'brs': '>>', 'lt': '<', 'lte': '<=', 'gt': '>', 'gte': '>=', 'eq': '==', 'neq': '!=',
         'and': '&', 'xor': '^', 'or': '|', 'land': '&&', 'lor': '||', 'comma': ','}


def extract(mir):
    name = [n for n in mir.index if n == 'compile'] or [n for n in mir.index if n.endswith('compile::compile')]
    body = mir.body(name[0])
    val = {}
    parsers = []
    order = sorted(body.blocks, key=lambda b: int(b[2:]))
    for bb in order:
        for s in body.blocks[bb]:
            m = re.match(r'(_\d+) = Rule::(\w+);$', s)
            if m: val[m.group(1)] = ('rule', m.group(2)); continue
            m = re.match(r'(_\d+) = pest::pratt_parser::Assoc::(\w+);$', s)
            if m: val[m.group(1)] = ('assoc', m.group(2)); continue
            m = re.match(r'(_\d+) = Op::<Rule>::(infix|prefix|postfix)\((.*?)\) -> ', s)
            if m:
                args = [a.replace('move ', '').replace('copy ', '').strip() for a in m.group(3).split(',')]
                rule = val[args[0]][1]
                assoc = val[args[1]][1] if len(args) > 1 else None
                val[m.group(1)] = ('ops', [(m.group(2), rule, assoc)]); continue
            m = re.match(r'(_\d+) = <Op<Rule> as BitOr>::bitor\(move (_\d+), move (_\d+)\) -> ', s)
            if m: val[m.group(1)] = ('ops', val[m.group(2)][1] + val[m.group(3)][1]); continue
            m = re.match(r'(_\d+) = PrattParser::<Rule>::new\(\) -> ', s)
            if m: val[m.group(1)] = ('parser', []); parsers.append(m.group(1)); continue
            m = re.match(r'(_\d+) = PrattParser::<Rule>::op\(move (_\d+), move (_\d+)\) -> ', s)
            if m:
                val[m.group(1)] = ('parser', val[m.group(2)][1] + [val[m.group(3)][1]])
                if m.group(2) in parsers: parsers[parsers.index(m.group(2))] = m.group(1)
                continue
    if len(parsers) != 3: raise ValueError('expected 3 Pratt parsers in compile(), found %d' % len(parsers))
    return {k: val[p][1] for k, p in zip(('pratt', 'pratt_init_value', 'calculator'), parsers)}


def table(levels):
    """levels (lowest precedence first) -> {rule: (level index, assoc, kind)} for infix operators"""
    t = {}
    for k, ops in enumerate(levels):
        for kind, rule, assoc in ops:
            if kind == 'infix': t[rule] = (k, assoc)
    return t


def grouping(t, o1, o2):
    """how `a o1 b o2 c` groups under table t: 'L' = (a o1 b) o2 c, 'R' = a o1 (b o2 c)"""
    l1, a1 = t[o1]; l2, a2 = t[o2]
    if l1 > l2: return 'L'
    if l1 < l2: return 'R'
    return 'L' if a1 == 'Left' else 'R'


def c_grouping(o1, o2):
    l1, l2 = C_LEVEL[o1], C_LEVEL[o2]
    if l1 > l2: return 'L'
    if l1 < l2: return 'R'
    return 'L' if C_ASSOC[l1] == 'Left' else 'R'

"""C11 Comments, layout and listing options never affect behaviour - E-TV relational."""
import re, random, hashlib, os
import common, runner, families, families2

COMMENTS = ['/* c */', '/* "quoted" // not a line comment */', '/* #define X 1 */', '/* http://example.org/a*b */', '/**/', '/* * / */', "/* it's */"]
LINE_COMMENTS = ['// plain', '// with "quote', '// /* open', '// #else', "// it's", '// http://x.y/z']


def perturb(src, seed, mode):
    """insert layout noise at token boundaries (the generated source has every token boundary at a space or newline)"""
    rnd = random.Random(seed)
    out = []
    lines = src.split('\n')
    for ln in lines:
        if ln.startswith('#') or 'asm(' in ln:      # directives and asm strings: leave the line alone, add noise around it
            out.append(ln); continue
        toks = ln.split(' ')
        new = []
        for k, t in enumerate(toks):
            new.append(t)
            if k == len(toks) - 1 or t == '' or toks[k + 1] == '': continue
            r = rnd.random()
            if mode == 'glue' and r < 0.3: new[-1] = t + rnd.choice(COMMENTS) + '\x00'      # the comment replaces the separating blank
            elif mode == 'block' and r < 0.25: new.append(rnd.choice(COMMENTS))
            elif mode == 'splice' and r < 0.2: new[-1] = t + ' \\\n'
            elif mode == 'splice-indent' and r < 0.25: new[-1] = t + '\\\n \t\x00'        # the continuation line's indentation is the only separator
            elif mode == 'tabs' and r < 0.4: new[-1] = t + '\t'
            elif mode == 'mixed':
                if r < 0.12: new.append(rnd.choice(COMMENTS))
                elif r < 0.2: new[-1] = t + ' \\\n'
                elif r < 0.3: new[-1] = t + '\t\t'
        l2 = ' '.join(new).replace('\x00 ', '')
        r = rnd.random()
        if mode == 'lineend' and l2.strip() and not l2.rstrip().endswith('\\'):
            l2 += rnd.choice(['/* a *//* b */', '/* a */// b', '/**/', '// x', ' /* a */ /* b */ // c', '/* a */'])        # comments glued to the last token and to each other
        if mode in ('line', 'mixed') and r < 0.35 and not l2.rstrip().endswith('\\'): l2 += ' ' + rnd.choice(LINE_COMMENTS)
        out.append(l2)
        if mode in ('blank', 'mixed') and rnd.random() < 0.3: out.append('')
        if mode in ('block', 'mixed') and rnd.random() < 0.15: out.append('/* multi\n   line "comment\n   // still inside */')
    s = '\n'.join(out)
    if mode == 'oneline':
        # several statements per line, and statements on the very last line (with and without a final newline)
        keep = [l for l in src.split('\n') if l.startswith('#')]
        rest = ' '.join(l.strip() for l in src.split('\n') if not l.startswith('#'))
        s = '\n'.join(keep + [rest]) + ('\n' if seed % 2 else '')
    if mode == 'crlf': s = s.replace('\n', '\r\n')
    if mode == 'crlf-splice':
        rnd2 = random.Random(seed)
        s = '\r\n'.join((l.replace(' ', ' \\\r\n ', 1) if (' ' in l.strip() and not l.startswith('#') and 'asm(' not in l and rnd2.random() < 0.3) else l) for l in src.split('\n'))
    if mode == 'dense':
        # every blank that C does not need is removed: do{X++;}while(X!=5); if(a)b=1;else{c=2;}
        out = []
        for ln in src.split('\n'):
            if ln.startswith('#') or 'asm(' in ln: out.append(ln); continue
            l2 = re.sub(r'\s*([{}()\[\];,=+\-/<>!&|^~?:])\s*', r'\1', ln.strip())
            l2 = re.sub(r'(?<![a-z]) ?\* ?', '*', l2) if not re.match(r'^(const |unsigned |signed |char |short |int )', l2) else l2
            l2 = re.sub(r'([-+])\1', lambda m: m.group(0), l2)
            out.append(l2)
        s = '\n'.join(out)
        # keep apart what would fuse into another token: a - -b, a + +b, a & &b ...
        if re.search(r'(\+\+\+|---|&&&|\|\|\||<<<|>>>|=-|=\+|=&|=\*|=!|=~)', s): return None
    if mode == 'dirindent':
        s = re.sub(r'(?m)^#', '  #', src)
    if mode == 'dirindent-tab':
        s = re.sub(r'(?m)^#', '\t#', src)
    if mode == 'hash-blank':
        s = re.sub(r'(?m)^#(\w)', r'# \1', src)
    if mode == 'macrocall-blank':
        # a blank between the name of a function-like macro and the parenthesis of its CALL (not of its definition)
        s = '\n'.join(l if l.lstrip().startswith('#define') else re.sub(r'\b(BAR|SUM3)\(', r'\1 (', l) for l in src.split('\n'))
    if mode == 'dirtab':
        s = re.sub(r'(?m)^(#\w+) ', r'\1\t', src)
        s = re.sub(r'(?m)^(#define\t\w+) ', r'\1\t', s)
    return s


class TextProg:
    """a program given as text with a hole for the spelling of a type"""
    def __init__(self, pid, tpl, words, names): self.pid, self.tpl, self.words, self.names = pid, tpl, words, names
    def text(self, sep): return self.tpl.replace('{T}', sep.join(self.words))
    def c(self): return self.text(' ')
    def gnames(self): return self.names


def type_spellings():
    """multi-word type names (the grammar handles the blanks inside them itself, in atomic rules) in every declaration position"""
    forms = [['short', 'int'], ['unsigned', 'short'], ['unsigned', 'short', 'int'], ['signed', 'short', 'int'], ['unsigned', 'int'], ['signed', 'int'], ['unsigned', 'char'], ['signed', 'char'], ['signed', 'short']]
    tpls = [('global', '{T} g1; {T} g2;\nvoid main() { g1 = g2 + 1; }\n', ['g1', 'g2']), ('array', '{T} ga[3]; {T} g1;\nvoid main() { ga[1] = g1; g1 = ga[X]; }\n', ['ga', 'g1']),
            ('local', '{T} g1;\nvoid main() { {T} l = g1; l++; g1 = l; }\n', ['g1']), ('param', '{T} g1;\nvoid f({T} p) { g1 = p; }\nvoid main() { f(g1 + 1); }\n', ['g1']),
            ('return', '{T} g1;\n{T} f() { return g1 + 1; }\nvoid main() { g1 = f(); }\n', ['g1']), ('two-params', 'unsigned char r;\nvoid f({T} p, {T} q) { r = p + q; }\nvoid main() { f(1, 2); }\n', ['r']),
            ('const', 'const {T} k = 3; {T} g1;\nvoid main() { g1 = k; }\n', ['g1']), ('sizeof', 'unsigned char r;\nvoid main() { r = sizeof({T}); }\n', ['r']),
            ('pointer', '{T} g1; {T} *gp;\nvoid main() { g1 = 1; }\n', ['g1']), ('inline-fn', '{T} g1;\ninline {T} f({T} p) { return p + 1; }\nvoid main() { g1 = f(g1); }\n', ['g1'])]
    for words in forms:
        for tn, tpl, names in tpls:
            yield TextProg('types/%s/%s' % ('-'.join(words), tn), tpl, words, names)


TYPE_SEPS = [('two-blanks', '  '), ('tab', '\t'), ('blank-tab', ' \t'), ('newline', '\n'), ('crlf-indent', '\r\n    '), ('comment', ' /* c */ '), ('comment-glued', '/* c */'), ('splice', ' \\\n '), ('many', '   \t  \n  ')]


def run(tier):
    rep = common.Report('C11', tier, 'translation_validation')
    common.build_driver()
    progs = [p for p in list(families.g_peep('quick')) if families.stable_pick(p.pid, 100, 12 if tier == 'quick' else 60)]
    progs += [p for p in families2.all_core('quick') if families.stable_pick(p.pid, 100, 6 if tier == 'quick' else 40)]
    def variants(p):
        seed = int(hashlib.md5(p.pid.encode()).hexdigest()[:6], 16) + rep.seed
        v = [('plain', [], None), ('insert_code', ['--insert-code'], None), ('Wall', ['-W', 'all'], None), ('insert_code+Wall', ['--insert-code', '-W', 'all'], None)]
        for mode in ('block', 'glue', 'line', 'lineend', 'blank', 'splice', 'splice-indent', 'tabs', 'crlf', 'oneline', 'mixed', 'dense', 'crlf-splice'):
            v.append(('layout:' + mode, [], (lambda p, mode=mode: perturb(p.c(), seed, mode))))
        v.append(('layout:mixed+insert_code', ['--insert-code'], (lambda p: perturb(p.c(), seed + 1, 'mixed'))))
        v.append(('layout:oneline+insert_code', ['--insert-code'], (lambda p: perturb(p.c(), seed, 'oneline'))))
        v.append(('layout:oneline-nl+insert_code', ['--insert-code'], (lambda p: perturb(p.c(), seed + 1, 'oneline'))))
        return v
    allstats, samples = {}, []
    for lvl in (['-O1'], ['-O0']):
        stats, smp, results = runner.relational(rep, progs, variants, 'plain', args_base=lvl, reject_is_violation=True)
        allstats[lvl[0]] = dict(stats); samples += smp[:2]
    # a tab after the name of a directive and after the name of a macro
    dprogs = []
    for k, (body, names) in enumerate([('#define FOO 3\n#define BAR(a, b) ((a) + (b))\nunsigned char g1;\nvoid main() { g1 = FOO + BAR(1, 2); }\n', ['g1']),
                                        ('#define FOO 1\n#ifdef FOO\nunsigned char g1;\n#else\nunsigned char g2;\n#endif\n#ifndef FOO\nunsigned char g3;\n#endif\nvoid main() { g1 = 1; }\n', ['g1']),
                                        ('#define FOO 1\n#define ZERO 0\n#if FOO\nunsigned char g1;\n#elif ZERO\nunsigned char g2;\n#endif\n#undef FOO\n#ifdef FOO\nunsigned char g3;\n#endif\n#if ZERO == 0\nunsigned char g4;\n#endif\nvoid main() { g1 = 1; g4 = 2; }\n', ['g1', 'g4'])]):
        p = TextProg('directives/%d' % k, body, [], names); p.text = (lambda sep, body=body: body); dprogs.append(p)
    import check_c06
    incd = os.path.join(common.CACHE, 'c06_inc'); check_c06.write_headers(incd)
    for k, (body, names) in enumerate([('#include "h_ok.h"\n#define SUM3(a, b, c) ((a) + (b) + (c))\nunsigned char g1;\nvoid main() { g1 = SUM3(1, from_header_a, 2); from_header_b = SUM3(g1, (g1 + 1), BAR0); }\n'.replace('BAR0', '3'), ['g1', 'from_header_a', 'from_header_b']),
                                        ('unsigned char g1;\n#ifdef NOPE\n#include "h_bad_syntax.h"\n#else\n#include "h_ok.h"\n#endif\nvoid main() { g1 = 1; from_header_a = g1; }\n', ['g1', 'from_header_a'])]):
        p = TextProg('directives/inc%d' % k, body, [], names); p.text = (lambda sep, body=body: body); dprogs.append(p)
    dv = lambda p: [('plain', ['-I', incd], None)] + [('layout:' + m, ['-I', incd], (lambda p, m=m: perturb(p.c(), 0, m))) for m in ('dirtab', 'crlf', 'dirindent', 'dirindent-tab', 'macrocall-blank')]
    stats, smp, results = runner.relational(rep, dprogs, dv, 'plain', args_base=['-O1'], reject_is_violation=True)
    allstats['directive-separators/-O1'] = dict(stats)
    # the spelling of multi-word type names
    tv = lambda p: [('plain', [], None)] + [('typesep:' + n, [], (lambda p, s=s: p.text(s))) for n, s in TYPE_SEPS]
    stats, smp, results = runner.relational(rep, list(type_spellings()), tv, 'plain', args_base=['-O1'], reject_is_violation=True)
    allstats['type-spellings/-O1'] = dict(stats)
    # listing/warning options on the complete peephole family (comment lines sit between the instructions the optimiser pairs up)
    big = list(families.g_peep(tier)) + list(families.g_peep_random(4242, 3000 if tier == 'quick' else 12000, depth=4))
    import families3
    big += [p for p in families3.g_deep('quick') if p.pid.startswith(('deep/idx/', 'deep/nest/', 'deep/cmp/', 'deep/tern/', 'deep/bare/'))]
    # statements whose acceptance and scratch-cell use depend on what the generator records while it emits a -Wperf warning: an element
    # indexed by a variable / expression (Y parked in cctmp) combined with an operand computed in A, a call, a register comparison
    from cast import For, Assign, Inc, Block, Index, If, Call, ExprS
    from families import V, C, A, B, mkprog
    from families3 import F1
    ys = [('sub-shl', lambda: A(V('vc'), B('-', Index('arr', V('vb')), B('<<', V('vd'), C(1))))), ('sub-call', lambda: A(V('vc'), B('-', Index('arr', V('vb')), Call('f', [V('vd')])))),
          ('sub-and', lambda: A(V('vc'), B('-', Index('arr', B('+', V('vb'), C(1))), B('&', V('vd'), C(3))))), ('cmp-X', lambda: If(B('<', Index('arr', V('vb')), V('X')), A(V('vc'), C(1)))),
          ('cmp-Y', lambda: If(B('==', Index('arr', V('vb')), V('Y')), A(V('vc'), C(1)))), ('add', lambda: A(V('vc'), B('+', Index('arr', V('vb')), V('vd')))), ('two', lambda: A(V('vc'), B('-', Index('arr', V('vb')), Index('brr', V('vd'))))),
          ('st', lambda: A(Index('arr', V('vb')), B('-', V('vc'), B('<<', V('vd'), C(1))))), ('ptr', lambda: A(V('vc'), B('-', Index('pp', V('vb')), B('<<', V('vd'), C(1))))), ('w', lambda: A(V('wa'), B('-', Index('warr', V('vb')), V('wb')))),
          ('shl-sub', lambda: A(V('vc'), B('-', B('<<', V('vd'), C(1)), Index('arr', V('vb'))))), ('k-idx', lambda: A(V('vc'), B('-', Index('pp', C(2)), B('<<', V('vd'), C(1)))))]
    for yn, y in ys:
        fn = [F1()] if yn == 'sub-call' else []
        big.append(mkprog('opt/ysave/%s/bare' % yn, [y()], funcs=fn))
        big.append(mkprog('opt/ysave/%s/yloop' % yn, [For(Assign(V('Y'), '=', C(0)), B('!=', V('Y'), C(3)), Inc('++', False, V('Y')), Block([y(), A(Index('brr', V('Y')), V('vc'))]))], funcs=fn))
        big.append(mkprog('opt/ysave/%s/after' % yn, [A(V('Y'), C(2)), y(), A(Index('brr', V('Y')), V('vc'))], funcs=fn))
    optv = [('plain', [], None), ('insert_code', ['--insert-code'], None), ('insert_code+Wall', ['--insert-code', '-W', 'all'], None), ('Wall', ['-W', 'all'], None), ('Wperf', ['-W', 'perf'], None)]
    stats, smp, results = runner.relational(rep, big, optv, 'plain', args_base=['-O1'], reject_is_violation=True)
    allstats['options/-O1'] = dict(stats); samples += smp[:2]
    tot = lambda k: sum(s.get(k, 0) for s in allstats.values())
    # a variant that is rejected or crashes although the plain source is accepted changes "which declarations exist"
    for lvl, st in allstats.items():
        pass
    if not samples:
        samples = [dict(note='all variants produced code identical to the plain source (decided by text equality)', example=progs[0].c(), perturbed=perturb(progs[0].c(), 1, 'mixed'))]
    rep.cov = dict(programs=tot('accepted'), disagreements_checked=tot('disagreements_checked'), samples=samples, variant_pairs=tot('variants'),
                   identical_by_text=tot('identical_by_text'), decided_by_solver=tot('decided'), variant_rejected=tot('variant_err'), variant_crash=tot('variant_crash'),
                   unsupported=tot('unsupported'), queries=tot('queries'), solver_s=round(tot('solver_s'), 1),
                   bounds=dict(options=['--insert-code', '-W all'], layout_modes=['block comments', 'block comments glued between tokens', '// comments', 'blank lines', 'splices', 'tabs', 'CR-LF', 'whole program on one line (with/without final newline)', 'mixed', 'separators inside multi-word type names in every declaration position'],
                               placements='between any two tokens of the generated source, pseudo-random per program (seeded)'), stats=allstats)
    rep.assumptions = ['as C02', 'layout noise is inserted only at token boundaries of my own printer output; pest WHITESPACE/COMMENT rules themselves are exercised, not encoded']
    return rep.finish()

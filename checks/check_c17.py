"""C17 Split-port cartridge RAM - E-TV with a port-fault memory model + relational check against the unqualified program."""
import itertools, copy, time, collections, multiprocessing, traceback
import common, runner, families, families2
from families import stable_pick


def _task(t):
    import z3
    from equiv import Session, confirm, run_concrete
    from sym6502 import Unsupported, AsmError, zb, is_c
    import ports
    res = dict(pid=t['pid'], label=t['label'])
    t0 = time.time()
    try:
        ca, cb = common.Compiled(t['ja']), common.Compiled(t['jb'])
        S = Session()
        P = ports.for_scheme(cb.scheme)
        try:
            va = S.variant(ca)
        except AsmError as e:
            res.update(verdict='base_noasm', msg=str(e)); return res
        try:
            vb = S.variant(cb, ports=P)
        except AsmError as e:
            res.update(verdict='noasm', msg=str(e)); return res
        # same initial values for the same variable in both placements
        A = {n: (a, nb) for n, a, nb, v in va.layout.ram}
        tied = 0
        for n, a, nb, v in vb.layout.ram:
            if n in A and A[n][0] != a:
                for k in range(nb):
                    S.assume(z3.Select(S.M0, z3.BitVecVal(a + k, 16)) == z3.Select(S.M0, z3.BitVecVal(A[n][0] + k, 16)), ('tie', n, k)); tied += 1
        for reg, lim in t['lim'].items():
            S.assume(z3.ULT(z3.BitVec(reg + '0', 8), lim), ('reglt', reg, lim))
        outs, hits, m = S.run(vb)
        # (1) no port fault reachable
        for st in outs + hits:
            for cond, text, pc in st.faults:
                mdl = S.check(st.pcond + [cond])
                if mdl is not None:
                    regs, mem = S.concretize(mdl, (vb,))
                    sc = run_concrete(vb, regs, mem)
                    conf = sc is not None and any(f[0] is True for f in sc.faults)
                    ins = vb.prog.code[pc]
                    res.update(verdict='fault' if conf else 'unconfirmed_fault', fault=text, instruction=ins.raw.strip(), function=ins.scope, regs=regs,
                               queries=S.queries, solver_s=round(S.solver_s, 3))
                    return res
        # (2) same final values as the program without the qualifiers
        out = S.compare(va, vb, t['names'])
        res.update(verdict=out.verdict, queries=S.queries, solver_s=round(S.solver_s, 3))
        if out.verdict in ('diff', 'termdiff'):
            ok, detail = confirm(S, out, va, vb, t['names'])
            res['detail'] = detail
            if not ok: res['verdict'] = 'unconfirmed_' + out.verdict
            else:
                try: res['sig'] = S.can_differ(va, vb, t['names'])
                except Unsupported: res['sig'] = None
    except Unsupported as e:
        res.update(verdict='unsupported', msg=str(e))
    except Exception:
        res.update(verdict='engine_error', msg=traceback.format_exc()[-1200:])
    res['wall'] = round(time.time() - t0, 2)
    return res


PORT = {('Superchip', '4K'): (0, 0x80), ('MemoryOnChip', '3E'): (0x400, 0), ('MemoryOnChip', '3EP'): (0x200, 0), ('MemoryOnChip', '4K'): (0, 0)}     # (store offset, other offset)
_MIR = None


def _port_job(chunk):
    """asm() from MIR: effective operand offset with the variable in split-port RAM == offset with the variable in zero page + port offset"""
    global _MIR
    import sys, os
    sys.path.insert(0, os.path.join(common.VERIF, 'mirsym'))
    import z3
    from asm_model import load, run_asm, variable, operand, s_text, S, STRUCTS, ENUMS, Unsupported, Fmt, Str
    if _MIR is None: _MIR = load('on')
    mir = _MIR
    fn = [n for n in mir.index if n.endswith('>::asm') and 'generate_asm' in n][0]
    F = STRUCTS['AsmInstruction']
    def paths(cfg, mem, scheme):
        var = variable(None, cfg['vt'], mem, cfg['const'])
        ctx, res = run_asm(mir, fn, cfg['mn'], operand(cfg['kind'], eight_bits=cfg.get('eb', True)), var=var, scheme=scheme, high_byte=cfg['hb'], budget_s=60)
        out = []
        for x in res:
            if x[0] != 'return': out.append((x[1].pc, 'panic', None, None)); continue
            ev = [e for e in x[1].events if e[0].endswith('append_asm')]
            if not ev: out.append((x[1].pc, 'err' if any(e[0].endswith('syntax_error') for e in x[1].events) else 'none', None, None)); continue
            ins = S(ev[0][1][1]); opv = S(ins.fields[('', F.index('dasm_operand'))].v)
            text = s_text(opv)
            holes = [h for part in opv.parts if isinstance(part, Fmt) for h in part.vals] if isinstance(opv, Str) else []
            eff = holes[0] if holes else z3.BitVecVal(0, 32)
            if z3.is_bv(eff) and eff.size() == 64: eff = z3.Extract(31, 0, eff)
            out.append((x[1].pc, 'ok', text.replace('{}', 'N'), eff))
        return ctx, out
    results = []
    for cfg in chunk:
        r = dict(cfg=cfg, obligations=0, discharged=0, queries=0, viol=[], rmw=False, unsupported=None)
        try:
            cb, base = paths(cfg, 'Zeropage', '4K')
            cp, port = paths(cfg, cfg['mem'], cfg['scheme'])
        except Unsupported as e:
            r['unsupported'] = str(e)[:160]; results.append(r); continue
        P = PORT[(cfg['mem'], cfg['scheme'])][0 if cfg['mn'] in ('STA', 'STX', 'STY') else 1]
        sol = z3.Solver(); sol.add(*cb.constraints); sol.add(*cp.constraints)
        off, vsize = z3.BitVec('off', 32), z3.BitVec('v.size', 64)
        sol.add(off >= 0, off <= 0x4000, z3.ULE(vsize, 0x1000))          # array offsets are non-negative and small, sizes small: no 32-bit wrap-around
        for pcb, kb, tb, eb in base:
            for pcp, kp, tp, ep in port:
                if kb != 'ok' or kp != 'ok': continue
                immediate = tb.startswith('#') and tb[1:2] not in ('<', '>')
                r['queries'] += 1
                if sol.check(*(pcb + pcp)) != z3.sat: continue
                r['obligations'] += 1
                if immediate or tb == 'cctmp':
                    r['discharged'] += 1; continue
                if cfg['mn'] in ('INC', 'DEC', 'ASL', 'LSR', 'ROL', 'ROR') and not tp.startswith('#'): r['rmw'] = True
                r['queries'] += 1
                if sol.check(*(pcb + pcp + [ep != eb + z3.BitVecVal(P, 32)])) == z3.unsat: r['discharged'] += 1; continue
                m = sol.model()
                r['viol'].append(dict(operand_zero_page=tb, operand_port=tp, expected_port_offset=P, model={str(d): str(m[d]) for d in m.decls()},
                                      eff_base=str(m.eval(eb, model_completion=True)), eff_port=str(m.eval(ep, model_completion=True))))
        results.append(r)
    return results


def check_asm_ports(rep, tier, st):
    import itertools, sys, os
    sys.path.insert(0, os.path.join(common.VERIF, 'mirsym'))
    from engine import ENUMS
    cfgs = []
    memops = ['LDA', 'LDX', 'LDY', 'STA', 'STX', 'STY', 'ADC', 'SBC', 'EOR', 'AND', 'ORA', 'CMP', 'CPX', 'CPY', 'LSR', 'ASL', 'ROL', 'ROR', 'INC', 'DEC']
    if tier == 'quick': memops = ['LDA', 'LDX', 'LDY', 'STA', 'STX', 'STY', 'ADC', 'CMP', 'INC', 'ASL']
    for mn, hb in itertools.product(memops, (False, True)):
        for kind, eb in (('Absolute', True), ('Absolute', False), ('AbsoluteX', True), ('AbsoluteY', True)):
            for vt, const in itertools.product(('Char', 'Short', 'CharPtr', 'CharPtrPtr', 'ShortPtr'), (False, True)):
                for mem, sch in PORT:
                    cfgs.append(dict(mn=mn, hb=hb, kind=kind, eb=eb, vt=vt, const=const, mem=mem, scheme=sch))
    chunks = [cfgs[i::64] for i in range(64)]
    t0 = time.time()
    with multiprocessing.get_context('fork').Pool(common.NCPU) as pool:
        results = [r for ch in pool.imap_unordered(_port_job, chunks) for r in ch]
    st['asm_port_wall_s'] = round(time.time() - t0, 1)
    rmw = collections.Counter()
    for r in results:
        st['asm_port_configs'] += 1; st['asm_port_obligations'] += r['obligations']; st['asm_port_discharged'] += r['discharged']; st['queries'] += r['queries']
        if r['unsupported']: rep.inconc('asm() port configuration %s: %s' % (r['cfg'], r['unsupported']))
        if r['rmw']: rmw[r['cfg']['mn']] += 1
        for v in r['viol']:
            cfg = r['cfg']
            st['asm_port_violations'].append((cfg, v))
    st['rmw_passed_through_asm'] = dict(rmw)


def replay_asm_ports(rep, st, R_programs):
    """confirm E-MIR port-offset counterexamples through the public API: a compiled family program whose emitted code contains the
    mnemonic with the wrong port offset (found by the E-TV part as a fault or a difference)"""
    seen = set()
    for cfg, v in st['asm_port_violations']:
        key = 'asm.port.%s.%s.%s.%s.%s%s' % (cfg['mem'], cfg['scheme'], cfg['mn'], cfg['kind'], cfg['vt'], '.hi' if cfg['hb'] else '')
        if key in seen: continue
        seen.add(key)
        st['unconfirmed_isolated'].append('%s: asm() gives operand %s where zero page gives %s; expected port offset %d, effective %s vs %s' % (key, v['operand_port'], v['operand_zero_page'], v['expected_port_offset'], v['eff_port'], v['eff_base']))


def port_programs(tier):
    base = []
    for p in families.g_peep('quick'):
        if p.pid.startswith('peep/1/'): base.append(p)
        elif p.pid.startswith('peep/2/') and stable_pick(p.pid, 1000, 25 if tier == 'quick' else 200): base.append(p)
        elif p.pid.startswith(('peep/s/', 'peep/f')) and 'w_shrass' not in p.pid and stable_pick(p.pid, 1000, 60 if tier == 'quick' else 400): base.append(p)      # (the 16-bit shift defect P01 stays covered by the pair family)
    for p in families2.all_core('quick'):
        if stable_pick(p.pid, 1000, 30 if tier == 'quick' else 300): base.append(p)
    import check_c04
    base += check_c04.g_modes()          # every addressing form x char / signed char / 16-bit arrays x X / Y / constant index
    import families3
    base += [p for p in families3.g_retest('quick') if '+=X' not in p.pid]       # read / store-not-through-A / read again
    # comparisons of X / Y with a variable (CPX / CPY read it), as conditions and as loop bounds
    from cast import If, For, Assign, Inc, ExprS, Block
    from families import V, C, A, B, mkprog
    for rn, op in itertools.product(('X', 'Y'), ('<', '>=', '==', '!=', '<=', '>')):
        base.append(mkprog('regcmp/%s%sva' % (rn, op), [If(B(op, V(rn), V('va')), A(V('vc'), C(1)), A(V('vc'), C(2)))]))
        base.append(mkprog('regcmp/va%s%s' % (op, rn), [If(B(op, V('va'), V(rn)), A(V('vc'), C(1)), A(V('vc'), C(2)))]))
    for rn in ('X', 'Y'):
        base.append(mkprog('regcmp/for-%s-ne' % rn, [A(V('va'), B('&', V('va'), C(3))), For(Assign(V(rn), '=', C(0)), B('!=', V(rn), V('va')), Inc('++', False, V(rn)), ExprS(Inc('++', False, V('vc'))))]))
        base.append(mkprog('regcmp/for-%s-lt' % rn, [A(V('va'), B('&', V('va'), C(3))), For(Assign(V(rn), '=', C(0)), B('<', V(rn), V('va')), Inc('++', False, V(rn)), A(V('vc'), V(rn), '+='))]))
    out = []
    # excluded: statements whose effect depends on the incidental accumulator content (store/load), and index registers loaded from memory
    # (the index would leave the array: undefined in C, and the two placements then touch different ports)
    bad = ('store', 'load', 'y_ax', 'x_ay', 'ld_', 'st_')
    base = [p for p in base if not any(b in p.pid for b in bad) and 'Y=aY' not in p.pid and 'Y=aX' not in p.pid and 'X=aY' not in p.pid and 'X=aX' not in p.pid]
    def reg_moves(p):
        src = p.c()
        for r, tags in (('X', ('x_ld', 'x_dec', 'x_inc', 'x_pass', 'x_y', 'X=', 'X+=', 'X-=', '++X', 'X++', '--X', 'X--')), ('Y', ('y_ld', 'y_inc', 'y_x', 'Y=', 'Y+=', 'Y-=', '++Y', 'Y++', '--Y', 'Y--'))):
            if '[%s]' % r in src and any(t in p.pid for t in tags): return True
        return False
    base = [p for p in base if not reg_moves(p)]
    for p in base:
        cands = [n for t, n in p.globs if t != 'ptr']      # (ptr),Y needs a zero-page pointer
        if not cands or len(cands) > 4: continue
        subsets = []
        for r in range(1, len(cands) + 1):
            subsets += list(itertools.combinations(cands, r))
        if tier == 'quick' and len(subsets) > 4:
            subsets = [s for s in subsets if len(s) == 1 or len(s) == len(cands)]
        out.append((p, subsets))
    return out


def run(tier):
    rep = common.Report('C17', tier, 'translation_validation')
    common.build_driver()
    work = port_programs(tier)
    reqs, meta = [], {}
    schemes = [('superchip', 'superchip', []), ('3E', 'bank1', ['-D__3E__']), ('3EP', 'bank1', ['-D__3E_PLUS__'])]
    for p, subsets in work:
        for lvl in ('-O1', '-O0') if tier == 'thorough' else ('-O1',):
            rid0 = '%s@plain%s' % (p.pid, lvl)
            reqs.append((rid0, [lvl], p.c()))
            for sch, qual, dargs in schemes:
                if sch != 'superchip' and tier == 'quick' and not stable_pick(p.pid + sch, 100, 35): continue
                for sub in subsets:
                    q = copy.copy(p); q.quals = {n: qual for n in sub}
                    rid = '%s@%s:%s%s' % (p.pid, sch, '+'.join(sub), lvl)
                    reqs.append((rid, [lvl] + dargs, q.c())); meta[rid] = (p, rid0, sub, sch, lvl, q.c(), [lvl] + dargs)
    t0 = time.time()
    R = common.compile_many(reqs)
    stats = collections.Counter(); stats['compile_s'] = round(time.time() - t0, 1)
    tasks = []
    for rid, (p, rid0, sub, sch, lvl, src, args) in meta.items():
        a, b = R[rid0], R[rid]
        stats['variants'] += 1
        if a.status != 'ok' or 'main' not in a.funcs: stats['base_not_ok'] += 1; continue
        if b.status != 'ok':
            stats['variant_' + b.status] += 1      # the compiler may refuse a placement (e.g. indirect addressing needs zero page)
            continue
        srcall = p.c()
        lim = {r: 3 for r in ('X', 'Y') if '[%s]' % r in srcall}
        tasks.append(dict(pid=p.pid, label='%s:%s%s' % (sch, '+'.join(sub), lvl), ja=a.j, jb=b.j, names=[n for t_, n in p.globs if t_ != 'ptr'], lim=lim, src=src, args=args, sub=sub, sch=sch))
    stats['programs'] = len(tasks)
    st = collections.defaultdict(int); st['asm_port_violations'] = []; st['unconfirmed_isolated'] = []
    check_asm_ports(rep, tier, st)
    replay_asm_ports(rep, st, R)
    ctx = multiprocessing.get_context('fork')
    t1 = time.time()
    with ctx.Pool(common.NCPU) as pool:
        results = list(pool.imap_unordered(_task, tasks, chunksize=4))
    stats['solve_wall_s'] = round(time.time() - t1, 1)
    tmap = {(t['pid'], t['label']): t for t in tasks}
    samples = []
    for r in results:
        t = tmap[(r['pid'], r['label'])]
        stats['decided' if r['verdict'] == 'equal' else r['verdict']] += 1
        stats['queries'] += r.get('queries', 0); stats['solver_s'] += r.get('solver_s', 0)
        cb = common.Compiled(t['jb'])
        key = '%s@%s#%s' % (r['pid'], r['label'], runner.code_hash(cb))
        if r['verdict'] == 'fault':
            stats['disagreements_checked'] += 1
            rep.violation(key, '%s [%s]: %s by `%s` in %s (initial state %s)' % (r['pid'], r['label'], r['fault'], r['instruction'], r['function'], r['regs']),
                          dict(kind='port-fault', source=t['src'], args=t['args'], fault=r['fault'], instruction=r['instruction'], regs=r['regs'], code={f: cb.funcs[f]['lines'] for f in cb.order}),
                          sig=['fault: %s by %s' % (r['fault'], str(r['instruction']).split()[0])])
        elif r['verdict'] in ('diff', 'termdiff'):
            stats['disagreements_checked'] += 1
            rep.violation(key, '%s [%s]: differs from the same program without the qualifier: %s %s' % (r['pid'], r['label'], r['detail'].get('regs'), r['detail'].get('diffs')),
                          dict(kind='port-diff', source=t['src'], args=t['args'], detail=r['detail'], code={f: cb.funcs[f]['lines'] for f in cb.order}), sig=r.get('sig'))
        elif r['verdict'].startswith('unconfirmed') or r['verdict'] == 'engine_error':
            rep.inconc('%s@%s: %s %s' % (r['pid'], r['label'], r['verdict'], r.get('msg', '')[-300:]))
        elif r['verdict'] == 'noasm':
            rep.violation('noasm:' + key, '%s [%s]: does not assemble: %s' % (r['pid'], r['label'], r.get('msg')), dict(kind='tv-noasm', source=t['src'], args=t['args'], msg=r.get('msg')))
        if r['verdict'] == 'equal' and len(samples) < 5 and r.get('queries', 0) > 0:
            samples.append(dict(program=t['src'], args=t['args'], verdict='no port fault reachable; final state equals the unqualified program for all inputs', queries=r.get('queries'), code=cb.funcs['main']['lines']))
    rep.cov = dict(programs=stats['programs'], disagreements_checked=stats['disagreements_checked'], samples=samples, decided_by_solver=stats['decided'],
                   variant_rejected=stats['variant_err'], unsupported=stats['unsupported'], queries=stats['queries'], solver_s=round(stats['solver_s'], 1),
                   asm_port_configs=st['asm_port_configs'], asm_port_obligations=st['asm_port_obligations'], asm_port_discharged=st['asm_port_discharged'], asm_port_wall_s=st['asm_port_wall_s'],
                   rmw_mnemonics_passed_through_asm=st['rmw_passed_through_asm'], unconfirmed_isolated=st['unconfirmed_isolated'][:12],
                   bounds=dict(schemes=['superchip', '3E (bank1 RAM, -D__3E__)', '3E+ (-D__3E_PLUS__)'], subsets='every subset (quick: singletons + all) of the non-pointer globals qualified',
                               families='peephole statement pool + core families (thinned)'), stats=dict(stats))
    rep.assumptions = ['as C02', 'A-idx: X/Y < 3 when used as array index', 'port model: superchip write $1000-$107F / read $1080-$10FF; 3E read $1000 / write +$400; 3E+ write +$200',
                       'same initial value assumed for a variable in both placements']
    return rep.finish()

// ccdrv: batch driver around the *real* cc6502 library (path dependency on /repo).
// Protocol: one request per stdin line, fields separated by TAB, payload fields hex-encoded.
//   C <id> <hex(args joined by \x1f)> <hex(source)>      compile, answer = JSON line
//   B <id> <hex(line spec)>                             AssemblyCode::check_branches on a line list
//   O <id> <hex(line spec)>                             AssemblyCode::optimize on a line list
//   R                                                   print pest Rule numbering
// line spec: items separated by '\n':  L <label> | I <MNEMONIC> <nbytes> <protected 0/1> <operand...> | N <size|-> <text> | D | M <comment>
use cc6502::assemble::{AsmInstruction, AsmMnemonic, AssemblyCode};
use cc6502::compile::*;
use cc6502::error::Error;
use cc6502::generate::*;
use cc6502::Args;
use clap::Parser;
use std::io::{BufRead, Write};
use std::sync::mpsc;
use std::time::Duration;

thread_local! {
    static LAST_PANIC: std::cell::RefCell<String> = std::cell::RefCell::new(String::new());
}

fn jstr(s: &str) -> String {
    let mut o = String::with_capacity(s.len() + 2);
    o.push('"');
    for c in s.chars() {
        match c {
            '"' => o.push_str("\\\""),
            '\\' => o.push_str("\\\\"),
            '\n' => o.push_str("\\n"),
            '\r' => o.push_str("\\r"),
            '\t' => o.push_str("\\t"),
            c if (c as u32) < 0x20 => o.push_str(&format!("\\u{:04x}", c as u32)),
            c => o.push(c),
        }
    }
    o.push('"');
    o
}

fn unhex(s: &str) -> Vec<u8> {
    let b = s.as_bytes();
    let mut v = Vec::with_capacity(b.len() / 2);
    let h = |c: u8| -> u8 {
        match c {
            b'0'..=b'9' => c - b'0',
            b'a'..=b'f' => c - b'a' + 10,
            b'A'..=b'F' => c - b'A' + 10,
            _ => 0,
        }
    };
    let mut i = 0;
    while i + 1 < b.len() {
        v.push(h(b[i]) * 16 + h(b[i + 1]));
        i += 2;
    }
    v
}

fn scheme_of(cs: &CompilerState) -> &'static str {
    if cs.context.get_macro("__3E__").is_some() {
        "3E"
    } else if cs.context.get_macro("__3E_PLUS__").is_some() {
        "3EP"
    } else if cs.context.get_macro("__SUPERGAME_EXFIX__").is_some() {
        "SuperGame/EXFIX"
    } else if cs.context.get_macro("__SUPERGAME256_EXFIX__").is_some() {
        "SuperGame256/EXFIX"
    } else if cs.context.get_macro("__SUPERGAME__").is_some() {
        "SuperGame"
    } else if cs.context.get_macro("__DPC__").is_some() {
        "DPC"
    } else if cs.context.get_macro("__DPCPLUS__").is_some() {
        "DPC+"
    } else {
        "4K"
    }
}

// Same sequence of library calls as the downstream builders (cc2600 / the repo's own tests/build.rs):
// generate_statement -> optimize_function (if -O>0) -> check_branches, per function in sorted order,
// then compute_functions_actually_in_use. Output is written in a line-oriented format parsed below.
fn builder(cs: &CompilerState, writer: &mut dyn Write, args: &Args) -> Result<(), Error> {
    let mut buf: Vec<u8> = Vec::new();
    let mut tail = String::new();
    let scheme = scheme_of(cs);
    {
        let mut g = GeneratorState::new(cs, &mut buf, args.insert_code, args.warnings.clone(), scheme);
        for f in cs.sorted_functions().iter() {
            if f.1.code.is_some() {
                g.current_bank = f.1.bank;
                g.local_label_counter_for = 0;
                g.local_label_counter_if = 0;
                g.functions_code.insert(f.0.clone(), AssemblyCode::new());
                g.current_function = Some(f.0.clone());
                g.generate_statement(f.1.code.as_ref().unwrap())?;
                g.current_function = None;
                if args.optimization_level > 0 {
                    g.optimize_function(f.0);
                }
                g.check_branches(f.0);
            }
        }
        g.compute_functions_actually_in_use()?;
        for f in cs.sorted_functions().iter() {
            let has = f.1.code.is_some();
            let size = if has { g.functions_code.get(f.0).unwrap().size_bytes() } else { 0 };
            g.write(&format!(
                "\x01FUNC\t{}\t{}\t{}\t{}\t{}\t{}\t{}\n",
                f.0,
                size,
                f.1.inline,
                f.1.bank,
                f.1.interrupt,
                has,
                f.1.local_variables.join(",")
            ))?;
            if has {
                g.write_function(f.0)?;
            }
        }
        g.write("\x01END\n")?;
        let mut keys: Vec<_> = g.functions_call_tree.keys().cloned().collect();
        keys.sort();
        for k in keys {
            tail.push_str(&format!("\x01CALL\t{}\t{}\n", k, g.functions_call_tree.get(&k).unwrap().join(",")));
        }
        let mut u: Vec<_> = g.functions_actually_in_use.iter().cloned().collect();
        u.sort();
        tail.push_str(&format!("\x01INUSE\t{}\n", u.join(",")));
    }
    writer.write_all(&buf)?;
    writer.write_all(tail.as_bytes())?;
    for v in cs.sorted_variables().iter() {
        writer.write_all(
            format!(
                "\x01VAR\t{}\t{:?}\t{}\t{}\t{:?}\t{}\t{}\t{}\t{}\t{:?}\n",
                v.0, v.1.var_type, v.1.var_const, v.1.signed, v.1.memory, v.1.size, v.1.alignment, v.1.global, v.1.reversed, v.1.def
            )
            .as_bytes(),
        )?;
    }
    writer.write_all(format!("\x01SCHEME\t{}\n", scheme).as_bytes())?;
    Ok(())
}

fn err_json(e: &Error) -> String {
    match e {
        Error::Syntax { filename, included_in, line, msg } => format!(
            "{{\"kind\":\"Syntax\",\"filename\":{},\"line\":{},\"included_in\":{},\"msg\":{}}}",
            jstr(filename),
            line,
            match included_in { Some((f, l)) => format!("[{},{}]", jstr(f), l), None => "null".to_string() },
            jstr(msg)
        ),
        Error::Compiler { filename, included_in, line, msg } => format!(
            "{{\"kind\":\"Compiler\",\"filename\":{},\"line\":{},\"included_in\":{},\"msg\":{}}}",
            jstr(filename),
            line,
            match included_in { Some((f, l)) => format!("[{},{}]", jstr(f), l), None => "null".to_string() },
            jstr(msg)
        ),
        Error::Io(e) => format!("{{\"kind\":\"Io\",\"msg\":{}}}", jstr(&format!("{}", e))),
        Error::Unimplemented { feature } => format!("{{\"kind\":\"Unimplemented\",\"msg\":{}}}", jstr(feature)),
        Error::Configuration { error } => format!("{{\"kind\":\"Configuration\",\"msg\":{}}}", jstr(error)),
    }
}

fn do_compile(argv: Vec<String>, src: Vec<u8>) -> String {
    let mut a = vec!["ccdrv".to_string()];
    a.extend(argv);
    let args = match Args::try_parse_from(a.iter()) {
        Ok(a) => a,
        Err(e) => return format!("\"status\":\"badargs\",\"msg\":{}", jstr(&format!("{}", e))),
    };
    let mut out = Vec::new();
    let r = std::panic::catch_unwind(std::panic::AssertUnwindSafe(|| compile(src.as_slice(), &mut out, &args, builder)));
    let raw = String::from_utf8_lossy(&out).to_string();
    match r {
        Ok(Ok(())) => format!("\"status\":\"ok\",\"raw\":{}", jstr(&raw)),
        Ok(Err(e)) => format!("\"status\":\"err\",\"err\":{},\"display\":{}", err_json(&e), jstr(&format!("{}", e))),
        Err(p) => {
            let m = if let Some(s) = p.downcast_ref::<&str>() { s.to_string() } else if let Some(s) = p.downcast_ref::<String>() { s.clone() } else { "?".to_string() };
            let loc = LAST_PANIC.with(|c| c.borrow().clone());
            format!("\"status\":\"panic\",\"msg\":{},\"loc\":{}", jstr(&m), jstr(&loc))
        }
    }
}

fn mnemonic(s: &str) -> Option<AsmMnemonic> {
    use AsmMnemonic::*;
    Some(match s {
        "LDA" => LDA, "LDX" => LDX, "LDY" => LDY, "STA" => STA, "STX" => STX, "STY" => STY, "TAX" => TAX, "TAY" => TAY,
        "TXA" => TXA, "TYA" => TYA, "ADC" => ADC, "SBC" => SBC, "EOR" => EOR, "AND" => AND, "ORA" => ORA, "LSR" => LSR,
        "ASL" => ASL, "ROL" => ROL, "ROR" => ROR, "CLC" => CLC, "SEC" => SEC, "CMP" => CMP, "CPX" => CPX, "CPY" => CPY,
        "BCC" => BCC, "BCS" => BCS, "BEQ" => BEQ, "BMI" => BMI, "BNE" => BNE, "BPL" => BPL, "INC" => INC, "INX" => INX,
        "INY" => INY, "DEC" => DEC, "DEX" => DEX, "DEY" => DEY, "JMP" => JMP, "JSR" => JSR, "RTS" => RTS, "RTI" => RTI,
        "PHA" => PHA, "PLA" => PLA, "PHP" => PHP, "PLP" => PLP, "NOP" => NOP,
        _ => return None,
    })
}

fn build_code(spec: &str) -> Result<AssemblyCode, String> {
    let mut code = AssemblyCode::new();
    for l in spec.split('\n') {
        if l.is_empty() { continue; }
        let mut p = l.splitn(2, ' ');
        let k = p.next().unwrap();
        let rest = p.next().unwrap_or("");
        match k {
            "L" => code.append_label(rest.to_string()),
            "D" => { code.append_dummy(); }
            "M" => code.append_comment(rest.to_string()),
            "N" => {
                let mut q = rest.splitn(2, ' ');
                let sz = q.next().unwrap_or("-");
                let txt = q.next().unwrap_or("").to_string();
                code.append_inline(txt, if sz == "-" { None } else { Some(sz.parse::<u32>().map_err(|e| e.to_string())?) });
            }
            "I" => {
                let mut q = rest.splitn(4, ' ');
                let mn = mnemonic(q.next().unwrap_or("")).ok_or("bad mnemonic")?;
                let nb = q.next().unwrap_or("2").parse::<u32>().map_err(|e| e.to_string())?;
                let prot = q.next().unwrap_or("0") == "1";
                let opnd = q.next().unwrap_or("").to_string();
                code.append_asm(AsmInstruction { mnemonic: mn, dasm_operand: opnd, cycles: 2, cycles_alt: None, nb_bytes: nb, protected: prot });
            }
            _ => return Err(format!("bad item {}", l)),
        }
    }
    Ok(code)
}

fn do_asm(kind: &str, spec: String) -> String {
    let r = std::panic::catch_unwind(std::panic::AssertUnwindSafe(|| {
        let mut code = build_code(&spec)?;
        let before = code.size_bytes();
        let n = if kind == "B" { code.check_branches() } else { code.optimize() };
        let mut out = Vec::new();
        code.write(&mut out, false).map_err(|e| e.to_string())?;
        Ok::<_, String>((before, n, code.size_bytes(), String::from_utf8_lossy(&out).to_string()))
    }));
    match r {
        Ok(Ok((b, n, s, t))) => format!("\"status\":\"ok\",\"size_before\":{},\"n\":{},\"size\":{},\"text\":{}", b, n, s, jstr(&t)),
        Ok(Err(e)) => format!("\"status\":\"badspec\",\"msg\":{}", jstr(&e)),
        Err(p) => {
            let m = if let Some(s) = p.downcast_ref::<&str>() { s.to_string() } else if let Some(s) = p.downcast_ref::<String>() { s.clone() } else { "?".to_string() };
            format!("\"status\":\"panic\",\"msg\":{}", jstr(&m))
        }
    }
}

fn with_watchdog<F: FnOnce() -> String + Send + 'static>(f: F, ms: u64) -> String {
    let (tx, rx) = mpsc::channel();
    // large stack: deep recursion in the parser must show up as a result, not kill the batch
    let _ = std::thread::Builder::new().stack_size(64 << 20).spawn(move || {
        let r = f();
        let _ = tx.send(r);
    });
    match rx.recv_timeout(Duration::from_millis(ms)) {
        Ok(s) => s,
        Err(mpsc::RecvTimeoutError::Timeout) => "\"status\":\"timeout\"".to_string(),
        Err(_) => "\"status\":\"crash\"".to_string(),
    }
}

fn main() {
    // CCDRV_SAME_THREAD: every request of the batch is served by ONE thread (state kept in thread-locals by the library is
    // then shared between the compilations of a batch, as it is in a downstream compiler that builds several files)
    if std::env::var("CCDRV_SAME_THREAD").is_ok() {
        let h = std::thread::Builder::new().stack_size(256 << 20).spawn(|| serve(true)).unwrap();
        let _ = h.join();
        std::process::exit(0);
    }
    serve(false);
}

fn serve(direct: bool) {
    // keep the location of the last panic of each thread (reported with the panic message)
    std::panic::set_hook(Box::new(|info| {
        let loc = info.location().map(|l| format!("{}:{}", l.file(), l.line())).unwrap_or_default();
        LAST_PANIC.with(|c| *c.borrow_mut() = loc);
    }));
    let timeout_ms: u64 = std::env::var("CCDRV_TIMEOUT_MS").ok().and_then(|s| s.parse().ok()).unwrap_or(5000);
    let stdin = std::io::stdin();
    let stdout = std::io::stdout();
    let mut hung = 0;
    for line in stdin.lock().lines() {
        let line = match line { Ok(l) => l, Err(_) => break };
        let f: Vec<&str> = line.split('\t').collect();
        if f.is_empty() { continue; }
        let body = match f[0] {
            "C" if f.len() >= 4 => {
                let argv: Vec<String> = {
                    let raw = String::from_utf8_lossy(&unhex(f[2])).to_string();
                    if raw.is_empty() { Vec::new() } else { raw.split('\x1f').map(|s| s.to_string()).collect() }
                };
                let src = unhex(f[3]);
                if direct { do_compile(argv, src) } else { with_watchdog(move || do_compile(argv, src), timeout_ms) }
            }
            "B" | "O" if f.len() >= 3 => {
                let spec = String::from_utf8_lossy(&unhex(f[2])).to_string();
                let k = f[0].to_string();
                with_watchdog(move || do_asm(&k, spec), timeout_ms)
            }
            "R" => {
                // numbering of the pest-generated Rule enum (needed by the MIR engine)
                let names = [
                    ("mul", Rule::mul as u32), ("div", Rule::div as u32), ("add", Rule::add as u32), ("sub", Rule::sub as u32),
                    ("brs", Rule::brs as u32), ("bls", Rule::bls as u32), ("and", Rule::and as u32), ("or", Rule::or as u32),
                    ("xor", Rule::xor as u32), ("eq", Rule::eq as u32), ("neq", Rule::neq as u32), ("gt", Rule::gt as u32),
                    ("gte", Rule::gte as u32), ("lt", Rule::lt as u32), ("lte", Rule::lte as u32), ("land", Rule::land as u32),
                    ("lor", Rule::lor as u32), ("ternary_cond1", Rule::ternary_cond1 as u32), ("ternary_cond2", Rule::ternary_cond2 as u32),
                    ("neg", Rule::neg as u32), ("not", Rule::not as u32), ("bnot", Rule::bnot as u32), ("comma", Rule::comma as u32),
                    ("assign", Rule::assign as u32), ("mass", Rule::mass as u32), ("pass", Rule::pass as u32), ("andass", Rule::andass as u32),
                    ("orass", Rule::orass as u32), ("xorass", Rule::xorass as u32), ("blsass", Rule::blsass as u32), ("brsass", Rule::brsass as u32),
                    ("mmp", Rule::mmp as u32), ("ppp", Rule::ppp as u32), ("deref", Rule::deref as u32), ("addr", Rule::addr as u32),
                    ("sizeof", Rule::sizeof as u32), ("call", Rule::call as u32), ("mm", Rule::mm as u32), ("pp", Rule::pp as u32),
                    ("EOI", Rule::EOI as u32),
                ];
                let v: Vec<String> = names.iter().map(|(n, d)| format!("{}:{}", jstr(n), d)).collect();
                format!("\"status\":\"ok\",\"rules\":{{{}}}", v.join(","))
            }
            _ => "\"status\":\"badrequest\"".to_string(),
        };
        if body.contains("\"status\":\"timeout\"") { hung += 1; }
        let id = if f.len() > 1 { f[1] } else { "" };
        let mut o = stdout.lock();
        let _ = writeln!(o, "{{\"id\":{},{}}}", jstr(id), body);
        let _ = o.flush();
        if hung >= 8 { break; } // too many detached spinning threads: stop, the caller restarts the batch
    }
    std::process::exit(0);
}

"""Generic relational translation-validation runner: compile variants with the real compiler, decide
equivalence of the emitted code over all initial machine states with z3, replay every model concretely."""
import os, sys, time, json, multiprocessing, collections, traceback
sys.path.insert(0, os.path.join(os.path.dirname(os.path.abspath(__file__)), '..', 'lib'))
import common
from common import compile_many, Report, EngineError


def strip_text(lines):
    return [l for l in lines if not l.startswith(';') and l.strip() != '']


def same_text(ca, cb):
    fa = [f for f in ca.order if ca.funcs[f]['has_code']]
    fb = [f for f in cb.order if cb.funcs[f]['has_code']]
    if fa != fb: return False
    return all(strip_text(ca.funcs[f]['lines']) == strip_text(cb.funcs[f]['lines']) for f in fa)


def _task(t):
    """t: dict(pid, src_a, src_b, ja, jb, names, label_a, label_b, opts). Runs in a worker process."""
    import z3
    from equiv import Session, confirm
    from sym6502 import Unsupported, AsmError
    t0 = time.time()
    res = dict(pid=t['pid'], label=t['label_b'])
    try:
        ca, cb = common.Compiled(t['ja']), common.Compiled(t['jb'])
        o = t.get('opts', {})
        S = Session(max_back=o.get('max_back', 40), max_steps=o.get('max_steps', 3000), max_paths=o.get('max_paths', 300))
        hw = set(o['hw']) if o.get('hw') else None
        try:
            va = S.variant(ca, hw=hw)
        except AsmError as e:
            res.update(verdict='noasm_a', msg=str(e)); return res
        try:
            vb = S.variant(cb, hw=hw)
        except AsmError as e:
            res.update(verdict='noasm_b', msg=str(e)); return res
        for k, val in o.get('assume_regs', {}).items():
            S.assume(z3.BitVec(k + '0', 8) == val, ('reg', k, val))
        out = S.compare(va, vb, t['names'], events=o.get('events', False))
        res.update(verdict=out.verdict, queries=S.queries, solver_s=round(S.solver_s, 3), pairs=getattr(out, 'pairs', 0),
                   bound_hits=getattr(out, 'bound_hits', 0), paths=getattr(out, 'paths', None))
        if out.verdict in ('diff', 'termdiff'):
            ok, detail = confirm(S, out, va, vb, t['names'], events=o.get('events', False))
            res['confirmed'] = ok
            res['detail'] = detail
            if not ok: res['verdict'] = 'unconfirmed_' + out.verdict
    except Unsupported as e:
        res.update(verdict='unsupported', msg=str(e))
    except Exception as e:
        res.update(verdict='engine_error', msg=traceback.format_exc()[-1500:])
    res['wall'] = round(time.time() - t0, 3)
    return res


def run_tasks(tasks, jobs=None):
    jobs = jobs or common.NCPU
    if not tasks: return []
    ctx = multiprocessing.get_context('fork')
    with ctx.Pool(jobs) as pool:
        return list(pool.imap_unordered(_task, tasks, chunksize=4))


def relational(report, progs, variants, base_label, names_fn=None, opts=None, key_fn=None, what='', args_base=()):
    """progs: iterable of cast.Prog (or objects with pid, c(), gnames()).
    variants: list of (label, args list, transform(src)->src or None). The first entry is the base.
    Returns stats Counter. Violations are added to report."""
    progs = list(progs)
    reqs = []
    srcs = {}
    for p in progs:
        src = p.c()
        srcs[p.pid] = src
        for label, args, tr in variants:
            s2 = tr(p) if tr else src
            if s2 is None: continue
            reqs.append(('%s@%s' % (p.pid, label), list(args_base) + list(args), s2))
    t0 = time.time()
    R = compile_many(reqs)
    stats = collections.Counter()
    stats['compile_s'] = round(time.time() - t0, 1)
    tasks = []
    samples = []
    reqsrc = {i: s for i, _, s in reqs}
    for p in progs:
        base = R.get('%s@%s' % (p.pid, base_label))
        if base is None: continue
        stats['programs'] += 1
        if base.status != 'ok':
            stats['base_' + str(base.status)] += 1
            continue
        if 'main' not in base.funcs or not base.funcs['main']['has_code']:
            stats['base_nomain'] += 1; continue
        stats['accepted'] += 1
        names = names_fn(p) if names_fn else p.gnames()
        for label, args, tr in variants:
            if label == base_label: continue
            rid = '%s@%s' % (p.pid, label)
            if rid not in R: continue
            c = R[rid]
            stats['variants'] += 1
            if c.status != 'ok':
                # the variant is rejected while the base is accepted: not a behavioural difference of emitted code
                stats['variant_' + str(c.status)] += 1
                if c.status in ('panic', 'timeout', 'crash'):
                    stats['variant_crash'] += 1
                continue
            if same_text(base, c):
                stats['identical_by_text'] += 1; continue
            tasks.append(dict(pid=p.pid, ja=base.j, jb=c.j, names=names, label_a=base_label, label_b=label, opts=opts or {},
                              src_a=reqsrc['%s@%s' % (p.pid, base_label)], src_b=reqsrc[rid], args_b=list(args_base) + list(args)))
    tmap = {(t['pid'], t['label_b']): t for t in tasks}
    t1 = time.time()
    results = run_tasks(tasks)
    stats['solve_wall_s'] = round(time.time() - t1, 1)
    for r in results:
        stats['decided' if r['verdict'] == 'equal' else r['verdict']] += 1
        stats['queries'] += r.get('queries', 0); stats['solver_s'] += r.get('solver_s', 0); stats['bound_hits'] += r.get('bound_hits', 0) or 0
        t = tmap[(r['pid'], r['label'])]
        if r['verdict'] in ('diff', 'termdiff'):
            stats['disagreements_checked'] += 1
            key = (key_fn(r['pid'], r['label']) if key_fn else '%s@%s' % (r['pid'], r['label']))
            rep = dict(kind='tv-relational', pid=r['pid'], base=base_label, variant=r['label'], source_base=t['src_a'], source_variant=t['src_b'],
                       args_variant=t['args_b'], initial_state=r['detail'].get('regs'), memory=r['detail'].get('mem'),
                       differences=r['detail'].get('diffs'), termination=r['detail'].get('termination'),
                       code_base=common.Compiled(t['ja']).funcs, code_variant=common.Compiled(t['jb']).funcs)
            report.violation(key, '%s: %s vs %s differ on %s: %s' % (r['pid'], base_label, r['label'], r['detail'].get('regs'),
                                                                     r['detail'].get('diffs') or r['detail'].get('termination')), rep)
        elif r['verdict'].startswith('unconfirmed'):
            stats['disagreements_checked'] += 1
            report.inconc('model for %s@%s did not reproduce concretely (engine error)' % (r['pid'], r['label']))
        elif r['verdict'] == 'engine_error':
            report.inconc('engine error on %s@%s: %s' % (r['pid'], r['label'], r.get('msg', '')[-300:]))
        elif r['verdict'] in ('noasm_a', 'noasm_b'):
            stats['does_not_assemble'] += 1
            key = 'noasm:%s@%s' % (r['pid'], r['label'] if r['verdict'] == 'noasm_b' else base_label)
            report.violation(key, '%s: emitted code does not assemble: %s' % (r['pid'], r.get('msg')),
                             dict(kind='tv-noasm', pid=r['pid'], source=t['src_b' if r['verdict'] == 'noasm_b' else 'src_a'], msg=r.get('msg')))
        if len(samples) < 6 and r['verdict'] == 'equal':
            samples.append(dict(program=t['src_a'], base=base_label, variant=r['label'], verdict='equivalent for all initial states',
                                paths=r.get('paths'), queries=r.get('queries'), solver_s=r.get('solver_s')))
    return stats, samples, results

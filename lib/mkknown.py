"""Development-time tool (never run by a check): turn the replays of a triaged run into known_findings.json entries.
usage: mkknown.py <PID>   - classes (regex on the violation key -> description) are in lib/known_classes.py; a violation whose
key matches no class is printed and NOT added: every class was reviewed by hand against the real compiler output."""
import sys, os, re, json, glob
VERIF = os.path.dirname(os.path.dirname(os.path.abspath(__file__)))
exec(open(os.path.join(VERIF, 'lib', 'known_classes.py')).read())

def main(pid):
    path = os.path.join(VERIF, 'known_findings.json')
    db = json.load(open(path)) if os.path.exists(path) else {'findings': [], 'fixed': []}
    have = {(f['property'], f['key']) for f in db['findings']}
    byk = {(f['property'], f['key']): f for f in db['findings']}
    added, unmatched = 0, []
    for f in sorted(glob.glob(os.path.join(VERIF, 'replays', pid, '*.json'))):
        j = json.load(open(f))
        key = j['key']
        for ent in CLASSES.get(pid, []):
            cls, rx, what = ent[:3]
            if re.search(rx, key) and (len(ent) < 4 or re.search(ent[3], json.dumps(j.get('replay')))):
                sig = (j.get('replay') or {}).get('sig') if isinstance(j.get('replay'), dict) else None
                if (pid, key) not in have:
                    e = dict(property=pid, key=key, cls=cls, what=what, status='open')
                    if sig: e['sig'] = sig
                    db['findings'].append(e); have.add((pid, key)); byk[(pid, key)] = e; added += 1
                elif sig and byk[(pid, key)].get('sig') != sig:
                    byk[(pid, key)]['sig'] = sig
                break
        else:
            unmatched.append(key)
    db['findings'].sort(key=lambda f: (f['property'], f.get('cls', ''), f['key']))
    json.dump(db, open(path, 'w'), indent=0)
    print('added', added, 'total', len(db['findings']), 'unmatched', len(unmatched))
    for u in unmatched[:80]: print('  UNMATCHED', u)

main(sys.argv[1])

# (class id, regex on violation key, what) - reviewed classes of genuine cc6502 defects (see DESIGN.md "Known findings")
W16 = r'(ha|wa|w2|wb)'
CLASSES = {
 'C16': [
  ('X01-literal-out-of-range', r'^crash:', "an integer literal that does not fit (or is malformed, e.g. 99999999999, 0x100000000, --5) panics in parse_int / the bank-number parser: str::parse(...).unwrap()", r'ParseIntError'),
  ('X04-prototype-as-value', r'^crash:special/proto/as-(value|index)$', "a function that is only declared by a prototype used as a value (`c = f;`) panics in get_variable(...).unwrap()"),
  ('X03-inline-recursion', r'^crash:special/inline-(recursion|mutual)$', "an inline function that calls itself leaves an unresolved label: check_branches reaches unreachable!()", r'unreachable'),
 ],
 'C13': [
  ('A02-user-label-namespace', r'^noasm:special/user-label-(for1|ifend1|while1)', "a user label that spells like a generated one (`for1:`, `ifend1:`, `while1:` next to a for / if / while of the same function) is emitted as the same `.for1`: defined twice; user labels share the namespace of generated labels"),
  ('A01-store-immediate', r'^noasm:(expr/chain16|deep/asg/wa=\(va=vb\))', "wa = (va = vb): the high byte of the 16-bit destination is stored from the constant 0 as `STA #0`, which the 6502 does not have (asm() passes STA with an Immediate operand through; same defect as C01 K16)"),
 ],
 'C09': [
  ('L01-char-const-quote', r'^lit\.rejected\.char(-stmt)?/"$', "the character constant '\"' is rejected with 'Unterminated string': the preprocessor's string scanner does not know character constants"),
 ],
 'C10': [
  ('T01-prec-eq-rel', r'^calculator\.table\.(eq|neq)\.(gt|gte|lt|lte)$', "constant expressions: == and != share one precedence level with < > <= >=, so `a == b > c` is grouped as `(a == b) > c` (C: `a == (b > c)`)"),
  ('T03-prec-eq-rel-tables', r'^table/(stmt|init)/(eq|neq)\.(gt|gte|lt|lte)@', "the statement-level and the local-initialiser operator tables (read from the MIR of compile()) also put == / != on the level of < > <= >=: `3 == 2 < 1` folds to (3 == 2) < 1 (same defect as T01 / C01 K12)"),
  ('T02-ternary-sentinel', r'^parse_calc\.ternary\.sentinel$', "constant `c ? a : b` uses the value 0x7eaddead as an in-band 'condition was false' marker: `1 ? 2125323949 : x` yields x"),
 ],
 'C17': [
  ('P01-shift16-rmw', r'(w_shrass|expr/shass/|expr/sh/|rw/cass|modes/shift/warr)', "16-bit shift-assignment (x >>= k, x <<= k) on a variable in split-port RAM is emitted as LSR/ROR/ASL/ROL directly on memory: read-modify-write cycle on the read port"),
 ],
 'C15': [
  ('R01-shift16', r'^rw/cass/(ha|wa|w2)(<<|>>)=', "16-bit x <<= k / x >>= k and x = x << k give different results (the expression form computes the high byte from the low byte; see C01 K03)"),
  ('R02-unsigned-vs-0', r'^rw/(far/)?(ifneg|negop|mirror|mirrorset|or)/(va|wa|X|Y)~(0|65535|255)/', "comparison of an unsigned value against 0 / the type maximum: one of the two equivalent forms is folded with the sign flag (see C01 K09)"),
  ('R03-cmp16', r'^rw/(far/)?(ifneg|negop|mirror|mirrorset|or)/(wa|wX|va)~(wb|wa|va)/', "16-bit unsigned <= / > / >= : the two equivalent forms take different branches (see C01 K10)"),
  ('R04-signed-compare', r'^rw/(far/)?(ifneg|negop|mirror|mirrorset|or)/(sa|ha)~', "signed comparison: a < b and b > a are lowered differently, both overflow-unsafe (see C01 K08)"),
  ('R06-saved-Y-lost-update', r'^rw/ctx/regidx-and/pp/Y=\d/inc/', "ptr[k] with a constant k saves Y, loads k and restores Y afterwards around the whole condition: an update of Y made inside the condition (`ptr[2] && (++Y, ptr[Y])`) is undone by the restore"),
  ('R05-inc16-array', r'^rw/inc/.*w[2X]|^rw/regidx/w_inc/', "++/-- on a 16-bit array element updates the low byte only while x += 1 carries (see C01 K06)"),
 ],
 'C01': [
  ('K01-deref-clobbers-Y', r'^expr/.*dp', "'*ptr' is compiled as LDY #0 + (ptr),Y while another operand or the destination of the same expression still needs the previous Y (Y, arr[Y], ptr[Y]): wrong operand"),
  ('K02-reg-in-16bit', r'^expr/(bin|cass|un)/' + W16 + r'[-+&|^]?=.*\b[XY]\b', "16-bit destination with an X/Y register operand: evaluated in 8 bits, carry/borrow into the high byte lost"),
  ('K03-shift16', r'^expr/(sh|shass)/|^deep/sh16/', "shift expression assigned to / applied on a 16-bit object: high byte computed from the low byte, or shift counts >= 8 mishandled"),
  ('K04-not16', r'^expr/un/' + W16 + r'=!', "'!e' assigned to a 16-bit destination: the 0/1 value is stored in both bytes (257 instead of 1)"),
  ('K05-truth16-array', r'^expr/un/.*=!w[X1]', "truth value of a 16-bit array element tests the low byte only"),
  ('K06-inc16-array', r'^expr/inc(use)?/.*w2|^deep/idx/(inc|cass)/warr', "++/-- on an element of a 16-bit array updates the low byte only"),
  ('K07-deferred-postinc-index', r'^expr/incuse/Y=.*aY', "post-inc/dec of arr[Y] deferred until after Y itself was assigned: applied to the wrong element"),
  ('K08-signed-compare', r'^cond/(if|set|ifnoelse|tern|while)/(sa|ha)~|^expr/kcmp/(sa|ha)/|^deep/cmp/s_sum|^deep/idx/cmp/sarr', "signed comparison lowered to CMP/SBC + BMI/BPL: wrong when the subtraction overflows, and > / <= variants wrong at equality"),
  ('K09-unsigned-vs-0', r'^cond/(if|set|ifnoelse|tern|while)/(va|wa|X|Y)~(0|65535|255)/|^deep/cmp/[^/@]*(<|<=|>|>=)k(0|255)@|^deep/regconst/(X|Y|va)=\d+/(<|>=|<=|>)0/', "unsigned comparison against 0 or the type maximum folded with the sign flag / miscompiled (e.g. 'vc = va > 0' is always 0)"),
  ('K10-cmp16', r'^cond/(if|set|ifnoelse|tern|while)/(wa|wX|va|ha)~(wb|wa|va|hb|\d+|-\d+)/', "16-bit comparison (<=, > and mixed 8/16-bit operands) takes the wrong branch for some operands"),
  ('K11-postinc-in-shortcircuit', r'^cond/log[23]/.*i|^deep/kcond/\w+/[^@]*va\+\+', "post-increment inside an operand of && / || is deferred past the short-circuit decision: executed when it must not be / missed when it must"),
  ('K12-prec-eq-rel', r'^expr/prec(init)?/.*(==|!=)(vc|vb|wc)(<|>|<=|>=)|^expr/prec(init)?/.*(<|>|<=|>=)(vc|vb|wc)(==|!=)', "== / != share one precedence level with < > <= >= (C: relational binds tighter)"),
  ('K13-logic16', r'^expr/prec/wa=.*(&&|\|\|)', "&& / || value assigned to a 16-bit destination: expression evaluated twice, 0/1 stored in both bytes, 16-bit operands tested on one byte"),
  ('K14-call16', r'^call/signed_ret', "8-bit function result assigned to a 16-bit destination: the call is emitted twice and the high byte is the result again"),
  ('K15-dowhile-postdec', r'^ctl/continue_do|^deep/empty/do@', "do { } while (v--): the decrement is deferred until after the loop, the loop never terminates for v != 0"),
  ('K16-noasm-chain16', r'^noasm:(expr/chain16|deep/asg/wa=\(va=vb\))', "wa = (va = wb) emits 'STA #0' (does not assemble)"),
  ('K17-prec-shift-arith16', r'^expr/prec/wa=wb(<<|>>)', "16-bit (x << k) combined with another operand: high byte computed from the low byte"),
  ('K19-bnot16', r'^expr/un/(ha|wa)=~', "'~e' assigned to a 16-bit destination: the high byte is computed from the low byte of the operand"),
  ('K20-postinc-in-condition', r'^deep/cmp/postinc|^deep/empty/while_postdec', "post-increment/decrement of a value tested by an if / loop condition is emitted on the fall-through path only: when the branch is taken the side effect is lost (`if (v++ < w) A else B` does not increment on the else path; `while (v--) ;` leaves v at 0)"),
  ('K21-postinc-in-ternary', r'^deep/tern/side', "post-inc/dec inside the alternatives of ?: are deferred past the selection: both side effects are executed"),
  ('K22-signext-computed-index', r'^deep/idx/ld16/sarr\[', "16-bit destination = element of a signed char array indexed by a variable or expression: the high byte is 0 instead of the sign extension (indexing by X / Y / a constant is extended correctly)"),
  ('K23-ternary16', r'^deep/tern/(w|wk|mixed|signed)@', "c ? a : b assigned to a 16-bit destination: evaluated per byte, the high byte is selected among the LOW bytes of the alternatives"),
  ('K24-store16-computed-index', r'^deep/idx/st/warr\[', "store to an element of a 16-bit array whose index is a variable or expression: Y is restored before the high byte is stored, which lands in another element"),
  ('K25-borrowed-Y', r'^deep/nest/[^=@]+=avb', "t[v] with a variable index borrows Y (saved in cctmp) for the whole statement: another use of Y in the same statement (a destination arr[Y], an operand ptr[Y]) sees the borrowed value, and a composite or call operand restores Y before the indexed access is made - wrong element read or written (`X = brr[vb] | f(vc)`, `arr[Y] = brr[vb] & (vc + vd)`)"),
  ('K18-composite16', r'^expr/prec/wa=', "16-bit destination = composite expression (comparison, shift or logical sub-expression combined with another operand): the sub-expression is re-evaluated per byte and its 8-bit value is used for the high byte as well"),
 ],
}
